(* C11 — proofs: an invariant of every reachable state of the lifecycle model *)
From Coq Require Import List String NArith ZArith Bool Lia.
From Verif Require Import Base.Util C11.Model.
Import ListNotations.
Local Open Scope string_scope.

(* ---------- basic facts about the state transformers ---------- *)
Lemma tstate_eqb_spec a b : reflect (a = b) (tstate_eqb a b).
Proof. destruct a, b; cbn; constructor; congruence. Qed.

Lemma mem_str_In x l : mem_str x l = true <-> In x l.
Proof.
  unfold mem_str; rewrite existsb_exists; split.
  - intros [y [Hy E]]. apply String.eqb_eq in E; subst; exact Hy.
  - intros H; exists x; split; [exact H|apply String.eqb_refl].
Qed.
Lemma mem_str_false x l : mem_str x l = false <-> ~ In x l.
Proof. rewrite <- mem_str_In. destruct (mem_str x l); split; congruence. Qed.

Lemma In_rm x y l : In x (rm y l) <-> In x l /\ x <> y.
Proof.
  unfold rm; rewrite filter_In. split; intros [A B]; split; try exact A.
  - apply negb_true_iff in B. destruct (String.eqb_spec y x); congruence.
  - apply negb_true_iff. destruct (String.eqb_spec y x); congruence.
Qed.
Lemma In_add x y l : In x (add y l) <-> In x l \/ x = y.
Proof.
  unfold add. destruct (mem_str y l) eqn:M.
  - apply mem_str_In in M. split; [tauto|]. intros [H|E]; [exact H|subst; exact M].
  - rewrite in_app_iff; cbn. intuition.
Qed.
Lemma NoDup_rm y l : NoDup l -> NoDup (rm y l).
Proof. unfold rm; apply NoDup_filter. Qed.
Lemma NoDup_add y l : NoDup l -> NoDup (add y l).
Proof.
  unfold add; intros H. destruct (mem_str y l) eqn:M; [exact H|].
  apply mem_str_false in M. induction l as [|z r IH]; cbn; [constructor; [tauto|constructor]|].
  inversion H as [|? ? Hz Hr]; subst. constructor.
  - rewrite in_app_iff; cbn. intros [A|[A|[]]]; [tauto|]. apply M; left; congruence.
  - apply IH; [exact Hr|]. intros A; apply M; right; exact A.
Qed.
Lemma rm_notin y l : ~ In y l -> rm y l = l.
Proof.
  unfold rm. induction l as [|w r IH]; cbn [filter]; intros H; [reflexivity|].
  destruct (String.eqb_spec y w) as [->|N]; [exfalso; apply H; left; reflexivity|].
  cbn [negb]. f_equal. apply IH. intros A; apply H; right; exact A.
Qed.
Lemma length_rm_in y l : NoDup l -> In y l -> S (List.length (rm y l)) = List.length l.
Proof.
  induction l as [|z r IH]; intros H Hin; [destruct Hin|].
  inversion H as [|? ? Hz Hr]; subst. unfold rm in *. cbn [filter].
  destruct (String.eqb_spec y z) as [->|N]; cbn [negb List.length].
  - fold (rm z r). rewrite (rm_notin z r Hz). reflexivity.
  - destruct Hin as [E|Hin]; [congruence|]. f_equal. apply IH; assumption.
Qed.
Lemma length_add_new y l : ~ In y l -> List.length (add y l) = S (List.length l).
Proof.
  intros H. unfold add. apply mem_str_false in H. rewrite H, app_length. cbn [List.length]. lia.
Qed.

(* association lists *)
Lemma alookup_aupsert_same {A} (l : list (string * A)) k (v : A) : alookup (aupsert l k v) k = Some v.
Proof.
  induction l as [|[a b] r IH]; cbn; [rewrite String.eqb_refl; reflexivity|].
  destruct (String.eqb_spec k a); cbn.
  - rewrite String.eqb_refl; reflexivity.
  - destruct (String.eqb_spec k a); [congruence|exact IH].
Qed.
Lemma alookup_aupsert_other {A} (l : list (string * A)) k k' (v : A) : k <> k' -> alookup (aupsert l k v) k' = alookup l k'.
Proof.
  intros Hk; induction l as [|[a b] r IH]; cbn.
  - destruct (String.eqb_spec k' k); congruence.
  - destruct (String.eqb_spec k a); cbn.
    + subst a. destruct (String.eqb_spec k' k); congruence.
    + destruct (String.eqb_spec k' a); [reflexivity|exact IH].
Qed.
Lemma alookup_aremove_same {A} (l : list (string * A)) k : alookup (aremove l k) k = None.
Proof.
  induction l as [|[a b] r IH]; cbn; [reflexivity|].
  destruct (String.eqb_spec k a); [exact IH|]. cbn. destruct (String.eqb_spec k a); [congruence|exact IH].
Qed.
Lemma alookup_aremove_other {A} (l : list (string * A)) k k' : k <> k' -> alookup (aremove l k) k' = alookup l k'.
Proof.
  intros Hk; induction l as [|[a b] r IH]; cbn; [reflexivity|].
  destruct (String.eqb_spec k a); cbn.
  - subst a. destruct (String.eqb_spec k' k); [congruence|exact IH].
  - destruct (String.eqb_spec k' a); [reflexivity|exact IH].
Qed.

(* find_task through the transformers *)
Lemma find_upd s id g id' : (forall t, tid (g t) = tid t) ->
  find_task (upd s id g) id' = if String.eqb id id' then option_map g (find_task s id') else find_task s id'.
Proof.
  intros Hg. unfold find_task, upd; cbn [ts].
  induction (ts s) as [|t r IH]; cbn [map find].
  - destruct (String.eqb id id'); reflexivity.
  - destruct (String.eqb_spec (tid t) id) as [E|N].
    + rewrite Hg. destruct (String.eqb_spec (tid t) id') as [E'|N'].
      * replace id' with id by congruence. rewrite String.eqb_refl. reflexivity.
      * exact IH.
    + destruct (String.eqb_spec (tid t) id') as [E'|N'].
      * destruct (String.eqb_spec id id'); [congruence|reflexivity].
      * exact IH.
Qed.

(* projections through the gauge / entity setters *)
Lemma ts_set_g s i r p : ts (set_g s i r p) = ts s. Proof. reflexivity. Qed.
Lemma ts_g_set s x l : ts (g_set s x l) = ts s. Proof. destruct x; reflexivity. Qed.
Lemma ents_g_set s x l : ents (g_set s x l) = ents s. Proof. destruct x; reflexivity. Qed.
Lemma find_g_set s x l id : find_task (g_set s x l) id = find_task s id.
Proof. unfold find_task; rewrite ts_g_set; reflexivity. Qed.
Lemma find_g_add s id x id' : find_task (g_add s id x) id' = find_task s id'.
Proof. apply find_g_set. Qed.
Lemma find_g_delete s id x id' : find_task (g_delete s id x) id' = find_task s id'.
Proof. apply find_g_set. Qed.
Lemma find_g_update s id n o id' : find_task (g_update s id n o) id' = find_task s id'.
Proof. unfold g_update. destruct (mem_str id (g_get s o)); [|reflexivity]. rewrite find_g_add, find_g_delete; reflexivity. Qed.
Lemma ents_g_add s id x : ents (g_add s id x) = ents s. Proof. apply ents_g_set. Qed.
Lemma ents_g_delete s id x : ents (g_delete s id x) = ents s. Proof. apply ents_g_set. Qed.
Lemma ents_g_update s id n o : ents (g_update s id n o) = ents s.
Proof. unfold g_update. destruct (mem_str id (g_get s o)); [|reflexivity]. rewrite ents_g_add, ents_g_delete; reflexivity. Qed.
Lemma find_set_ents s e id : find_task (set_ents s e) id = find_task s id. Proof. reflexivity. Qed.
Lemma ents_upd s id g : ents (upd s id g) = ents s. Proof. reflexivity. Qed.
Lemma g_get_upd s id g x : g_get (upd s id g) x = g_get s x. Proof. destruct x; reflexivity. Qed.
Lemma g_get_set_ents s e x : g_get (set_ents s e) x = g_get s x. Proof. destruct x; reflexivity. Qed.
Lemma g_get_g_set s x l y : g_get (g_set s x l) y = if tstate_eqb x y then l else g_get s y.
Proof. destruct x, y; reflexivity. Qed.

Definition runningb (t : trec) : bool := match sto t with Some v => tstate_eqb (v_state v) SRunning | None => false end.
Definition pausedb (t : trec) : bool := match sto t with Some v => tstate_eqb (v_state v) SPaused | None => false end.
Definition loadedb (t : trec) : bool := match mem t with Some _ => true | None => false end.
Definition activeb (t : trec) : bool := loadedb t && runningb t.
Definition lpausedb (t : trec) : bool := loadedb t && pausedb t.

(* a task record: absent; stored but not loaded (only while a reload is in progress); or loaded with
   memory = store, running with its readers or paused without *)
Definition good_task (t : trec) : Prop :=
  match mem t, sto t with
  | None, _ => started t = 0%Z /\ reg t = 0%Z
  | Some m, Some v =>
      v_state m = v_state v /\ v_state v <> SInitial
      /\ (v_state v = SRunning -> started t = 1%Z /\ reg t = 1%Z)
      /\ (v_state v = SPaused -> started t = 0%Z /\ reg t = 0%Z)
  | Some _, None => False
  end.

(* everything the invariant says about one task id *)
Definition in_quit (s : st) (tg id : string) : Prop := exists e, alookup (ents s) tg = Some e /\ In id (quit e).
Definition task_ok (s : st) (id : string) : Prop :=
  ~ In id (gi s)
  /\ match find_task s id with
     | None => ~ In id (gr s) /\ ~ In id (gp s) /\ forall tg, ~ in_quit s tg id
     | Some t =>
         tid t = id /\ good_task t
         /\ (In id (gr s) <-> activeb t = true) /\ (In id (gp s) <-> lpausedb t = true)
         /\ (forall tg, in_quit s tg id <-> (ttarget t = tg /\ activeb t = true))
         /\ (activeb t = true -> alookup (ents s) (ttarget t) <> None)
     end.
Definition ent_ok (s : st) : Prop :=
  forall tg e, alookup (ents s) tg = Some e -> NoDup (quit e) /\ refcnt e = Z.of_nat (List.length (quit e)).
Definition g_ok (s : st) : Prop := NoDup (gi s) /\ NoDup (gr s) /\ NoDup (gp s).
Record GInv (s : st) : Prop := { gi_task : forall id, task_ok s id; gi_ent : ent_ok s; gi_g : g_ok s }.

Lemma find_task_tid s id t : find_task s id = Some t -> tid t = id.
Proof. unfold find_task; intros H. apply find_some in H. destruct H as [_ E]. apply String.eqb_eq in E; exact E. Qed.

Lemma init_ginv : GInv init.
Proof.
  constructor.
  - intros id. unfold task_ok; cbn. repeat split; try tauto. intros tg [e [H _]]; discriminate.
  - intros tg e H; discriminate.
  - repeat split; constructor.
Qed.

(* ---------- frame: what a transformer must leave alone for task_ok of another id to survive ---------- *)
Definition ents_frame (s s' : st) (id' : string) : Prop :=
  (forall tg e', alookup (ents s') tg = Some e' ->
     (exists e, alookup (ents s) tg = Some e /\ (In id' (quit e') <-> In id' (quit e)))
     \/ (alookup (ents s) tg = None /\ ~ In id' (quit e')))
  /\ (forall tg e, alookup (ents s) tg = Some e -> In id' (quit e) -> alookup (ents s') tg <> None).

Lemma in_quit_frame s s' id' tg : ents_frame s s' id' -> (in_quit s' tg id' <-> in_quit s tg id').
Proof.
  intros [F1 F2]. split.
  - intros [e' [A B]]. destruct (F1 tg e' A) as [[e [A' E]]|[_ N]]; [|tauto]. exists e; split; [exact A'|apply E; exact B].
  - intros [e [A B]]. pose proof (F2 tg e A B) as N. destruct (alookup (ents s') tg) as [e'|] eqn:A'; [|congruence].
    exists e'; split; [exact A'|]. destruct (F1 tg e' A') as [[e0 [A0 E]]|[A0 _]]; [|congruence].
    rewrite A in A0; injection A0 as <-. apply E; exact B.
Qed.

Record frame (s s' : st) (id' : string) : Prop := {
  f_find : find_task s' id' = find_task s id';
  f_g : forall x, In id' (g_get s' x) <-> In id' (g_get s x);
  f_e : ents_frame s s' id';
}.

Lemma task_ok_frame s s' id' : frame s s' id' -> task_ok s id' -> task_ok s' id'.
Proof.
  intros [Hf Hg He] [Hi Ht]. unfold task_ok. rewrite Hf.
  pose proof (Hg SInitial) as G1; pose proof (Hg SRunning) as G2; pose proof (Hg SPaused) as G3; cbn in G1, G2, G3.
  split; [rewrite G1; exact Hi|].
  destruct (find_task s id') as [t|].
  - destruct Ht as [T [Gd [R [P [Q E]]]]].
    split; [exact T|]. split; [exact Gd|]. split; [rewrite G2; exact R|]. split; [rewrite G3; exact P|]. split.
    + intros tg. rewrite (in_quit_frame s s' id' tg He). apply Q.
    + intros A. pose proof (proj2 (Q (ttarget t)) (conj eq_refl A)) as [e [Ae Be]].
      apply (proj2 He (ttarget t) e Ae Be).
  - destruct Ht as [R [P Q]]. rewrite G2, G3. split; [exact R|]. split; [exact P|].
    intros tg X. apply (in_quit_frame s s' id' tg He) in X. apply (Q tg X).
Qed.

Lemma ents_frame_same s s' id' : ents s' = ents s -> ents_frame s s' id'.
Proof.
  intros E. unfold ents_frame. rewrite E. split.
  - intros tg e' H; left; exists e'; split; [exact H|tauto].
  - intros tg e H _; congruence.
Qed.

Lemma frame_refl s id' : frame s s id'.
Proof. constructor; [reflexivity|tauto|apply ents_frame_same; reflexivity]. Qed.

Lemma frame_trans s1 s2 s3 id' : frame s1 s2 id' -> frame s2 s3 id' -> frame s1 s3 id'.
Proof.
  intros [F1 G1 [E1a E1b]] [F2 G2 [E2a E2b]]. constructor.
  - congruence.
  - intros x. rewrite G2. apply G1.
  - split.
    + intros tg e3 A3. destruct (E2a tg e3 A3) as [[e2 [A2 I2]]|[A2 N3]].
      * destruct (E1a tg e2 A2) as [[e1 [A1 I1]]|[A1 N2]].
        -- left; exists e1; split; [exact A1|]. rewrite I2; exact I1.
        -- right; split; [exact A1|]. rewrite I2; exact N2.
      * destruct (alookup (ents s1) tg) as [e1|] eqn:A1; [|right; split; [reflexivity|exact N3]].
        left; exists e1; split; [reflexivity|]. split; [tauto|]. intros B1. exfalso. apply (E1b tg e1 A1 B1). exact A2.
    + intros tg e1 A1 B1. pose proof (E1b tg e1 A1 B1) as N2.
      destruct (alookup (ents s2) tg) as [e2|] eqn:A2; [|congruence].
      destruct (E1a tg e2 A2) as [[e1' [A1' I]]|[A1' _]]; [|congruence].
      rewrite A1 in A1'; injection A1' as <-. apply (E2b tg e2 A2). apply I; exact B1.
Qed.

(* primitives *)
Lemma frame_upd s id g id' : (forall t, tid (g t) = tid t) -> id' <> id -> frame s (upd s id g) id'.
Proof.
  intros Hg N. constructor.
  - rewrite find_upd by exact Hg. destruct (String.eqb_spec id id'); [congruence|reflexivity].
  - intros x; rewrite g_get_upd; tauto.
  - apply ents_frame_same; reflexivity.
Qed.

Lemma frame_upsert s tg e e1 id' : alookup (ents s) tg = Some e -> (In id' (quit e1) <-> In id' (quit e)) ->
  frame s (set_ents s (aupsert (ents s) tg e1)) id'.
Proof.
  intros A I. constructor; [reflexivity|intros x; rewrite g_get_set_ents; tauto|]. split; cbn [set_ents ents].
  - intros tg' e' H. destruct (String.eqb_spec tg tg') as [<-|N].
    + rewrite alookup_aupsert_same in H; injection H as <-. left; exists e; split; assumption.
    + rewrite alookup_aupsert_other in H by exact N. left; exists e'; split; [exact H|tauto].
  - intros tg' e0 H _. destruct (String.eqb_spec tg tg') as [<-|N].
    + rewrite alookup_aupsert_same; discriminate.
    + rewrite alookup_aupsert_other by exact N; congruence.
Qed.

Lemma frame_insert s tg e1 id' : alookup (ents s) tg = None -> ~ In id' (quit e1) ->
  frame s (set_ents s (aupsert (ents s) tg e1)) id'.
Proof.
  intros A I. constructor; [reflexivity|intros x; rewrite g_get_set_ents; tauto|]. split; cbn [set_ents ents].
  - intros tg' e' H. destruct (String.eqb_spec tg tg') as [<-|N].
    + rewrite alookup_aupsert_same in H; injection H as <-. right; split; assumption.
    + rewrite alookup_aupsert_other in H by exact N. left; exists e'; split; [exact H|tauto].
  - intros tg' e0 H _. destruct (String.eqb_spec tg tg') as [<-|N]; [congruence|].
    rewrite alookup_aupsert_other by exact N; congruence.
Qed.

Lemma frame_remove s tg e id' : alookup (ents s) tg = Some e -> ~ In id' (quit e) ->
  frame s (set_ents s (aremove (ents s) tg)) id'.
Proof.
  intros A I. constructor; [reflexivity|intros x; rewrite g_get_set_ents; tauto|]. split; cbn [set_ents ents].
  - intros tg' e' H. destruct (String.eqb_spec tg tg') as [<-|N].
    + rewrite alookup_aremove_same in H; discriminate.
    + rewrite alookup_aremove_other in H by exact N. left; exists e'; split; [exact H|tauto].
  - intros tg' e0 H B. destruct (String.eqb_spec tg tg') as [<-|N].
    + rewrite A in H; injection H as <-; tauto.
    + rewrite alookup_aremove_other by exact N; congruence.
Qed.

Lemma frame_g_set s x l id' : (In id' l <-> In id' (g_get s x)) -> frame s (g_set s x l) id'.
Proof.
  intros I. constructor; [apply find_g_set| |apply ents_frame_same; apply ents_g_set].
  intros y. rewrite g_get_g_set. destruct (tstate_eqb_spec x y) as [<-|N]; [exact I|tauto].
Qed.
Lemma frame_g_add s id x id' : id' <> id -> frame s (g_add s id x) id'.
Proof. intros N. apply frame_g_set. rewrite In_add. intuition congruence. Qed.
Lemma frame_g_delete s id x id' : id' <> id -> frame s (g_delete s id x) id'.
Proof. intros N. apply frame_g_set. rewrite In_rm. intuition congruence. Qed.
Lemma frame_g_update s id n o id' : id' <> id -> frame s (g_update s id n o) id'.
Proof.
  intros N. unfold g_update. destruct (mem_str id (g_get s o)); [|apply frame_refl].
  eapply frame_trans; [apply frame_g_delete; exact N|apply frame_g_add; exact N].
Qed.

(* ---------- release ---------- *)
Lemma two_distinct (l : list string) a b : NoDup l -> In a l -> In b l -> a <> b -> (List.length l >= 2)%nat.
Proof.
  intros N A B D. destruct l as [|x [|y r]]; cbn in *; try tauto; try lia.
  destruct A as [<-|[]], B as [<-|[]]; congruence.
Qed.


Lemma release_unfold s id tg :
  release s id tg =
  match alookup (ents s) tg with
  | None => s
  | Some e =>
      if mem_str id (quit e)
      then let s1 := upd s id reset_counters in
           let e1 := {| refcnt := (refcnt e - 1)%Z; quit := rm id (quit e) |} in
           if (refcnt e1 =? 0)%Z then set_ents s1 (aremove (ents s1) tg) else set_ents s1 (aupsert (ents s1) tg e1)
      else if (refcnt e =? 0)%Z then set_ents s (aremove (ents s) tg) else set_ents s (aupsert (ents s) tg e)
  end.
Proof. reflexivity. Qed.

Lemma frame_release s id tg id' : ent_ok s -> id' <> id -> frame s (release s id tg) id'.
Proof.
  intros EO N. rewrite release_unfold. destruct (alookup (ents s) tg) as [e|] eqn:A; [|apply frame_refl].
  destruct (EO tg e A) as [ND RC].
  destruct (mem_str id (quit e)) eqn:M; cbn zeta.
  - apply mem_str_In in M.
    eapply frame_trans; [apply (frame_upd s id reset_counters id'); [reflexivity|exact N]|].
    cbn [refcnt quit]. destruct (Z.eqb_spec (refcnt e - 1) 0) as [Z0|Z0].
    + apply (frame_remove _ tg e); [exact A|]. intros B.
      pose proof (two_distinct _ _ _ ND M B (fun E => N (eq_sym E))). lia.
    + apply (frame_upsert _ tg e); [exact A|]. cbn. rewrite In_rm. intuition congruence.
  - destruct (Z.eqb_spec (refcnt e) 0) as [Z0|Z0].
    + apply (frame_remove _ tg e); [exact A|]. intros B. destruct (quit e); [tauto|cbn in RC; lia].
    + apply (frame_upsert _ tg e); [exact A|tauto].
Qed.

Lemma ent_ok_upsert s tg e1 : ent_ok s -> NoDup (quit e1) -> refcnt e1 = Z.of_nat (List.length (quit e1)) ->
  ent_ok (set_ents s (aupsert (ents s) tg e1)).
Proof.
  intros EO A B tg' e H. cbn [set_ents ents] in H. destruct (String.eqb_spec tg tg') as [<-|N].
  - rewrite alookup_aupsert_same in H; injection H as <-; split; assumption.
  - rewrite alookup_aupsert_other in H by exact N. apply (EO tg' e H).
Qed.
Lemma ent_ok_remove s tg : ent_ok s -> ent_ok (set_ents s (aremove (ents s) tg)).
Proof.
  intros EO tg' e H. cbn [set_ents ents] in H. destruct (String.eqb_spec tg tg') as [<-|N].
  - rewrite alookup_aremove_same in H; discriminate.
  - rewrite alookup_aremove_other in H by exact N. apply (EO tg' e H).
Qed.
Lemma ent_ok_same s s' : ents s' = ents s -> ent_ok s -> ent_ok s'.
Proof. intros E EO tg e H. rewrite E in H. apply (EO tg e H). Qed.

Lemma ent_ok_release s id tg : ent_ok s -> ent_ok (release s id tg).
Proof.
  intros EO. rewrite release_unfold. destruct (alookup (ents s) tg) as [e|] eqn:A; [|exact EO].
  destruct (EO tg e A) as [ND RC].
  assert (EO1 : ent_ok (upd s id reset_counters)) by (apply (ent_ok_same s); [reflexivity|exact EO]).
  destruct (mem_str id (quit e)) eqn:M; cbn zeta.
  - apply mem_str_In in M. cbn [refcnt quit]. destruct (Z.eqb_spec (refcnt e - 1) 0).
    + apply ent_ok_remove; exact EO1.
    + apply ent_ok_upsert; [exact EO1|apply NoDup_rm; exact ND|]. cbn.
      pose proof (length_rm_in id (quit e) ND M). lia.
  - destruct (Z.eqb_spec (refcnt e) 0); [apply ent_ok_remove; exact EO|apply ent_ok_upsert; assumption].
Qed.

Lemma g_get_release s id tg x : g_get (release s id tg) x = g_get s x.
Proof.
  rewrite release_unfold. destruct (alookup (ents s) tg) as [e|]; [|reflexivity].
  destruct (mem_str id (quit e)); cbn zeta.
  - destruct (_ =? 0)%Z; rewrite g_get_set_ents, g_get_upd; reflexivity.
  - destruct (_ =? 0)%Z; rewrite g_get_set_ents; reflexivity.
Qed.

(* what release does to the released id itself *)
Lemma find_release_self s id tg :
  find_task (release s id tg) id =
  match alookup (ents s) tg with
  | Some e => if mem_str id (quit e) then option_map reset_counters (find_task s id) else find_task s id
  | None => find_task s id
  end.
Proof.
  rewrite release_unfold. destruct (alookup (ents s) tg) as [e|]; [|reflexivity].
  destruct (mem_str id (quit e)); cbn zeta.
  - destruct (_ =? 0)%Z; rewrite find_set_ents, find_upd by reflexivity; rewrite String.eqb_refl; reflexivity.
  - destruct (_ =? 0)%Z; reflexivity.
Qed.

Lemma in_quit_release s id tg tg' : ent_ok s ->
  (in_quit (release s id tg) tg' id <-> (in_quit s tg' id /\ tg' <> tg)).
Proof.
  intros EO. rewrite release_unfold. destruct (alookup (ents s) tg) as [e|] eqn:A.
  2:{ split; [intros H; split; [exact H|]|tauto]. intros ->. destruct H as [e [A' _]]; congruence. }
  destruct (EO tg e A) as [ND RC].
  assert (X : forall s' : st, ents s' = ents s ->
     (forall e1, ~ In id (quit e1) ->
       (in_quit (set_ents s' (aupsert (ents s') tg e1)) tg' id <-> in_quit s tg' id /\ tg' <> tg))
     /\ (in_quit (set_ents s' (aremove (ents s') tg)) tg' id <-> in_quit s tg' id /\ tg' <> tg)).
  { intros s' E. split; [intros e1 N1|]; unfold in_quit; cbn [set_ents ents]; rewrite E.
    - destruct (String.eqb_spec tg tg') as [<-|N].
      + rewrite alookup_aupsert_same. split; [intros [e0 [H B]]; injection H as <-; tauto|tauto].
      + rewrite alookup_aupsert_other by exact N. split; [intros H; split; [exact H|congruence]|tauto].
    - destruct (String.eqb_spec tg tg') as [<-|N].
      + rewrite alookup_aremove_same. split; [intros [e0 [H _]]; discriminate|tauto].
      + rewrite alookup_aremove_other by exact N. split; [intros H; split; [exact H|congruence]|tauto]. }
  destruct (mem_str id (quit e)) eqn:M; cbn zeta.
  - destruct (X (upd s id reset_counters) eq_refl) as [X1 X2]. cbn [refcnt quit].
    destruct (_ =? 0)%Z; [exact X2|]. apply X1. cbn. rewrite In_rm; tauto.
  - apply mem_str_false in M. destruct (X s eq_refl) as [X1 X2].
    destruct (_ =? 0)%Z; [exact X2|]. 
    (* the entity is written back unchanged: id was not in its quit list *)
    unfold in_quit; cbn [set_ents ents]. destruct (String.eqb_spec tg tg') as [<-|N].
    + rewrite alookup_aupsert_same, A. split; [intros [e0 [H B]]; injection H as <-; tauto|].
      intros [[e0 [H B]] _]. injection H as <-. tauto.
    + rewrite alookup_aupsert_other by exact N. split; [intros H; split; [exact H|congruence]|tauto].
Qed.

(* ---------- update_state ---------- *)

Lemma update_state_some s id new guard reason fg fp s' :
  update_state s id new guard reason fg fp = Some s' ->
  exists t v, find_task s id = Some t /\ sto t = Some v
    /\ (guard = [] \/ existsb (tstate_eqb (v_state v)) guard = true)
    /\ s' = g_update (upd s id (with_sto (Some {| v_state := new; v_reason := reason |}))) id new (v_state v).
Proof.
  unfold update_state. destruct fg; [discriminate|].
  destruct (find_task s id) as [t|]; [|discriminate]. destruct (sto t) as [v|] eqn:S; [|discriminate].
  destruct guard as [|g0 gr0]; cbn [negb].
  - destruct fp; [discriminate|]. intros H; injection H as <-. exists t, v. repeat split; auto.
  - destruct (existsb (tstate_eqb (v_state v)) (g0 :: gr0)) eqn:G; cbn [negb]; [|discriminate].
    destruct fp; [discriminate|]. intros H; injection H as <-. exists t, v. repeat split; auto.
Qed.

Lemma g_ok_g_set s x l : g_ok s -> NoDup l -> g_ok (g_set s x l).
Proof. intros [A [B C]] N. destruct x; cbn; repeat split; assumption. Qed.
Lemma g_ok_g_add s id x : g_ok s -> g_ok (g_add s id x).
Proof. intros G. apply g_ok_g_set; [exact G|]. apply NoDup_add. destruct G as [A [B C]]; destruct x; assumption. Qed.
Lemma g_ok_g_delete s id x : g_ok s -> g_ok (g_delete s id x).
Proof. intros G. apply g_ok_g_set; [exact G|]. apply NoDup_rm. destruct G as [A [B C]]; destruct x; assumption. Qed.
Lemma g_ok_g_update s id n o : g_ok s -> g_ok (g_update s id n o).
Proof. intros G. unfold g_update. destruct (mem_str id (g_get s o)); [|exact G]. apply g_ok_g_add, g_ok_g_delete, G. Qed.
Lemma g_ok_same s s' : gi s' = gi s -> gr s' = gr s -> gp s' = gp s -> g_ok s -> g_ok s'.
Proof. unfold g_ok. intros -> -> ->. tauto. Qed.

Lemma frame_update_state s id new guard reason fg fp s' id' :
  update_state s id new guard reason fg fp = Some s' -> id' <> id -> frame s s' id'.
Proof.
  intros H N. destruct (update_state_some _ _ _ _ _ _ _ _ H) as [t [v [_ [_ [_ ->]]]]].
  eapply frame_trans; [apply (frame_upd s id (with_sto (Some {| v_state := new; v_reason := reason |})) id'); [reflexivity|exact N]|apply frame_g_update; exact N].
Qed.
Lemma ents_update_state s id new guard reason fg fp s' :
  update_state s id new guard reason fg fp = Some s' -> ents s' = ents s.
Proof. intros H. destruct (update_state_some _ _ _ _ _ _ _ _ H) as [t [v [_ [_ [_ ->]]]]]. rewrite ents_g_update; reflexivity. Qed.
Lemma g_ok_update_state s id new guard reason fg fp s' :
  update_state s id new guard reason fg fp = Some s' -> g_ok s -> g_ok s'.
Proof.
  intros H G. destruct (update_state_some _ _ _ _ _ _ _ _ H) as [t [v [_ [_ [_ ->]]]]].
  apply g_ok_g_update. apply (g_ok_same s); try reflexivity; exact G.
Qed.

(* gauge membership of the updated id *)
Lemma g_update_self s id n o x : n <> o -> mem_str id (g_get s o) = true ->
  (In id (g_get (g_update s id n o) x) <-> (x = n \/ (x <> o /\ In id (g_get s x)))).
Proof.
  intros D M. unfold g_update; rewrite M. unfold g_add, g_delete.
  rewrite g_get_g_set. destruct (tstate_eqb_spec n x) as [<-|Nx].
  - rewrite In_add. tauto.
  - rewrite g_get_g_set. destruct (tstate_eqb_spec o x) as [<-|Ox].
    + rewrite In_rm. split; [tauto|]. intros [E|[E _]]; congruence.
    + split; [intros H; right; split; [congruence|exact H]|]. intros [E|[_ H]]; [congruence|exact H].
Qed.

(* ---------- the invariant "except one id", and the transient shape of a task about to be started ---------- *)
Record GInvX (s : st) (id : string) : Prop := {
  gx_task : forall id', id' <> id -> task_ok s id'; gx_ent : ent_ok s; gx_g : g_ok s }.

Lemma GInv_X s id : GInv s -> GInvX s id.
Proof. intros [A B C]; constructor; auto. Qed.
Lemma GInvX_full s id : GInvX s id -> task_ok s id -> GInv s.
Proof.
  intros [A B C] T; constructor; auto. intros id'. destruct (String.eqb_spec id' id) as [->|N]; auto.
Qed.
Lemma GInvX_frame s s' id : (forall id', id' <> id -> frame s s' id') -> ent_ok s' -> g_ok s' -> GInvX s id -> GInvX s' id.
Proof.
  intros F E G [A _ _]. constructor; auto. intros id' N. apply (task_ok_frame s s' id' (F id' N)). apply A; exact N.
Qed.

(* loaded, memory = store, no readers, not referenced by any entity, counted under its stored state only *)
Definition fresh_loaded (s : st) (id : string) : Prop :=
  exists t m v, find_task s id = Some t /\ tid t = id /\ mem t = Some m /\ sto t = Some v /\ v_state m = v_state v
    /\ started t = 0%Z /\ reg t = 0%Z /\ (forall tg, ~ in_quit s tg id) /\ (forall x, In id (g_get s x) <-> x = v_state v).


Lemma in_quit_same s s' tg id : ents s' = ents s -> (in_quit s' tg id <-> in_quit s tg id).
Proof. unfold in_quit; intros ->; tauto. Qed.

(* ---------- pause_with ---------- *)
Notation P := {| v_state := SPaused; v_reason := true |}.

Lemma pause_with_unfold s id guard fg fp :
  pause_with s id guard fg fp =
  match update_state s id SPaused guard true fg fp with
  | None =>
      match guard with
      | _ :: _ => (s, false)
      | [] => match find_task s id with
              | None => (s, false)
              | Some t => match mem t with None => (s, false) | Some _ => (release (upd s id (with_mem (Some P))) id (ttarget t), false) end
              end
      end
  | Some s1 =>
      match find_task s1 id with
      | None => (s1, true)
      | Some t => match mem t with None => (s1, true) | Some _ => (release (upd s1 id (with_mem (Some P))) id (ttarget t), true) end
      end
  end.
Proof. reflexivity. Qed.

Lemma frame_pause_with s id guard fg fp id' : ent_ok s -> id' <> id -> frame s (fst (pause_with s id guard fg fp)) id'.
Proof.
  intros EO N. rewrite pause_with_unfold.
  destruct (update_state s id SPaused guard true fg fp) as [s1|] eqn:U.
  - pose proof (frame_update_state _ _ _ _ _ _ _ _ id' U N) as F1.
    pose proof (ents_update_state _ _ _ _ _ _ _ _ U) as E1.
    destruct (find_task s1 id) as [t|]; [|exact F1]. destruct (mem t); [|exact F1]. cbn [fst].
    eapply frame_trans; [exact F1|]. eapply frame_trans; [apply (frame_upd s1 id (with_mem (Some P)) id'); [reflexivity|exact N]|].
    apply frame_release; [|exact N]. apply (ent_ok_same s); [cbn; exact E1|exact EO].
  - destruct guard as [|g0 gl]; [|apply frame_refl]. destruct (find_task s id) as [t|]; [|apply frame_refl]. destruct (mem t); [|apply frame_refl].
    cbn [fst]. eapply frame_trans; [apply (frame_upd s id (with_mem (Some P)) id'); [reflexivity|exact N]|].
    apply frame_release; [|exact N]. apply (ent_ok_same s); [reflexivity|exact EO].
Qed.

Lemma ent_ok_pause_with s id guard fg fp : ent_ok s -> ent_ok (fst (pause_with s id guard fg fp)).
Proof.
  intros EO. rewrite pause_with_unfold.
  destruct (update_state s id SPaused guard true fg fp) as [s1|] eqn:U.
  - pose proof (ents_update_state _ _ _ _ _ _ _ _ U) as E1.
    assert (EO1 : ent_ok s1) by (apply (ent_ok_same s); assumption).
    destruct (find_task s1 id) as [t|]; [|exact EO1]. destruct (mem t); [|exact EO1]. cbn [fst].
    apply ent_ok_release. apply (ent_ok_same s1); [reflexivity|exact EO1].
  - destruct guard as [|g0 gl]; [|exact EO]. destruct (find_task s id) as [t|]; [|exact EO]. destruct (mem t); [|exact EO].
    cbn [fst]. apply ent_ok_release. apply (ent_ok_same s); [reflexivity|exact EO].
Qed.

Lemma g_ok_release s id tg : g_ok s -> g_ok (release s id tg).
Proof.
  intros G. apply (g_ok_same s); try exact G.
  - exact (g_get_release s id tg SInitial). - exact (g_get_release s id tg SRunning). - exact (g_get_release s id tg SPaused).
Qed.

Lemma g_ok_pause_with s id guard fg fp : g_ok s -> g_ok (fst (pause_with s id guard fg fp)).
Proof.
  intros G. rewrite pause_with_unfold.
  destruct (update_state s id SPaused guard true fg fp) as [s1|] eqn:U.
  - pose proof (g_ok_update_state _ _ _ _ _ _ _ _ U G) as G1.
    destruct (find_task s1 id) as [t|]; [|exact G1]. destruct (mem t); [|exact G1]. cbn [fst].
    apply g_ok_release. apply (g_ok_same s1); try reflexivity; exact G1.
  - destruct guard as [|g0 gl]; [|exact G]. destruct (find_task s id) as [t|]; [|exact G]. destruct (mem t); [|exact G].
    cbn [fst]. apply g_ok_release. apply (g_ok_same s); try reflexivity; exact G.
Qed.

Lemma g_update_collapse s id n o : (forall x, In id (g_get s x) <-> x = o) ->
  forall x, In id (g_get (g_update s id n o) x) <-> x = n.
Proof.
  intros H x. assert (M : mem_str id (g_get s o) = true) by (apply mem_str_In, H; reflexivity).
  unfold g_update; rewrite M. unfold g_add, g_delete. rewrite g_get_g_set.
  destruct (tstate_eqb_spec n x) as [<-|Nx].
  - rewrite In_add. tauto.
  - rewrite g_get_g_set. destruct (tstate_eqb_spec o x) as [<-|Ox].
    + rewrite In_rm. split; [tauto|congruence].
    + rewrite H. split; congruence.
Qed.

(* the shape of a task as the entity sees it: active (readers on, referenced by exactly its target's entity)
   or idle (no readers, referenced by nobody) *)
Definition wired (s : st) (id : string) (t : trec) : Prop :=
  (started t = 1%Z /\ reg t = 1%Z /\ forall tg, in_quit s tg id <-> tg = ttarget t)
  \/ (started t = 0%Z /\ reg t = 0%Z /\ forall tg, ~ in_quit s tg id).

Lemma pause_self s id guard fg fp t m v s1 :
  ent_ok s -> find_task s id = Some t -> tid t = id -> mem t = Some m -> sto t = Some v ->
  wired s id t -> (forall x, In id (g_get s x) <-> x = v_state v) -> ~ In id (gi s) \/ v_state v = SInitial ->
  update_state s id SPaused guard true fg fp = Some s1 ->
  task_ok (fst (pause_with s id guard fg fp)) id.
Proof.
  intros EO F T Mm Ss W G _ U. rewrite pause_with_unfold, U.
  destruct (update_state_some _ _ _ _ _ _ _ _ U) as [t' [v' [F' [S' [_ ->]]]]].
  rewrite F in F'; injection F' as <-. rewrite Ss in S'; injection S' as <-.
  set (sa := upd s id (with_sto (Some P))).
  rewrite find_g_update. unfold sa at 1. rewrite find_upd by reflexivity. rewrite String.eqb_refl, F. cbn [option_map with_sto mem].
  rewrite Mm. cbn [fst with_sto ttarget].
  set (s2 := upd (g_update sa id SPaused (v_state v)) id (with_mem (Some P))).
  assert (E2 : ents s2 = ents s) by (unfold s2, sa; cbn; rewrite ents_g_update; reflexivity).
  assert (F2 : find_task s2 id = Some (with_mem (Some P) (with_sto (Some P) t))).
  { unfold s2. rewrite find_upd by reflexivity. rewrite String.eqb_refl, find_g_update. unfold sa.
    rewrite find_upd by reflexivity. rewrite String.eqb_refl, F. reflexivity. }
  assert (G2 : forall x, In id (g_get s2 x) <-> x = SPaused).
  { intros x. unfold s2. rewrite g_get_upd. apply g_update_collapse. intros y. unfold sa. rewrite g_get_upd. apply G. }
  assert (EO2 : ent_ok s2) by (apply (ent_ok_same s); assumption).
  unfold task_ok.
  assert (GI : forall x, g_get (release s2 id (ttarget t)) x = g_get s2 x) by (intros x; apply g_get_release).
  split. { change (gi (release s2 id (ttarget t))) with (g_get (release s2 id (ttarget t)) SInitial). rewrite GI, G2. discriminate. }
  rewrite find_release_self, F2.
  assert (Q : forall tg, ~ in_quit (release s2 id (ttarget t)) tg id).
  { intros tg H. apply (in_quit_release s2 id (ttarget t) tg EO2) in H. destruct H as [H N].
    rewrite (in_quit_same s s2 tg id E2) in H. destruct W as [[_ [_ W]]|[_ [_ W]]]; [apply N, W, H|apply (W tg H)]. }
  assert (Fin : exists tf, (match alookup (ents s2) (ttarget t) with
                            | Some e => if mem_str id (quit e) then option_map reset_counters (Some (with_mem (Some P) (with_sto (Some P) t)))
                                        else Some (with_mem (Some P) (with_sto (Some P) t))
                            | None => Some (with_mem (Some P) (with_sto (Some P) t)) end) = Some tf
                           /\ tid tf = id /\ ttarget tf = ttarget t /\ mem tf = Some P /\ sto tf = Some P /\ started tf = 0%Z /\ reg tf = 0%Z).
  { rewrite E2. destruct W as [[W1 [W2 W3]]|[W1 [W2 W3]]].
    - pose proof (proj2 (W3 (ttarget t)) eq_refl) as [e [A B]]. rewrite A. apply mem_str_In in B. rewrite B.
      eexists; split; [reflexivity|]. cbn. repeat split; try assumption; lia.
    - destruct (alookup (ents s) (ttarget t)) as [e|] eqn:A.
      + destruct (mem_str id (quit e)) eqn:B.
        * exfalso. apply (W3 (ttarget t)). exists e; split; [exact A|apply mem_str_In; exact B].
        * eexists; split; [reflexivity|]. cbn. repeat split; assumption.
      + eexists; split; [reflexivity|]. cbn. repeat split; assumption. }
  destruct Fin as [tf [-> [T1 [T2 [T3 [T4 [T5 T6]]]]]]].
  split; [exact T1|]. split.
  { unfold good_task. rewrite T3, T4. cbn. repeat split; try discriminate; assumption. }
  assert (A0 : activeb tf = false) by (unfold activeb, runningb; rewrite T4; cbn; apply andb_false_r).
  assert (L0 : lpausedb tf = true) by (unfold lpausedb, loadedb, pausedb; rewrite T3, T4; reflexivity).
  split. { change (gr (release s2 id (ttarget t))) with (g_get (release s2 id (ttarget t)) SRunning). rewrite GI, G2, A0. split; discriminate. }
  split. { change (gp (release s2 id (ttarget t))) with (g_get (release s2 id (ttarget t)) SPaused). rewrite GI, G2, L0. tauto. }
  split. { intros tg. rewrite A0. split; [intros H; exfalso; apply (Q tg H)|intros [_ H]; discriminate]. }
  rewrite A0; discriminate.
Qed.

(* ---------- start ---------- *)
Notation R := {| v_state := SRunning; v_reason := false |}.

Lemma start_unfold s id ignore fpg fg fp :
  start s id ignore fpg fg fp =
  match find_task s id with
  | None => (s, false)
  | Some t =>
      match alookup (ents s) (ttarget t) with
      | None => (s, false)
      | Some e =>
          if fpg then (s, false)
          else
            let s1 := set_ents (upd s id (bump_reg 1)) (aupsert (ents s) (ttarget t) {| refcnt := (refcnt e + 1)%Z; quit := add id (quit e) |}) in
            match (if ignore then Some s1 else update_state s1 id SRunning [SInitial; SPaused] false fg fp) with
            | None =>
                (set_ents (upd s1 id (bump_reg (-1)))
                   (aupsert (ents s1) (ttarget t) {| refcnt := (refcnt e + 1 - 1)%Z; quit := rm id (add id (quit e)) |}), false)
            | Some s2 => (upd s2 id now_running, true)
            end
      end
  end.
Proof. reflexivity. Qed.

Lemma rm_add_notin id l : ~ In id l -> rm id (add id l) = l.
Proof.
  intros H. unfold add. apply mem_str_false in H. rewrite H. unfold rm. rewrite filter_app. cbn.
  rewrite String.eqb_refl. cbn. rewrite app_nil_r. apply mem_str_false in H. apply (rm_notin id l H).
Qed.

Lemma frame_start s id ignore fpg fg fp id' : id' <> id -> frame s (fst (start s id ignore fpg fg fp)) id'.
Proof.
  intros N. rewrite start_unfold. destruct (find_task s id) as [t|]; [|apply frame_refl].
  destruct (alookup (ents s) (ttarget t)) as [e|] eqn:A; [|apply frame_refl].
  destruct fpg; [apply frame_refl|]. cbn zeta.
  set (e1 := {| refcnt := (refcnt e + 1)%Z; quit := add id (quit e) |}).
  set (s1 := set_ents (upd s id (bump_reg 1)) (aupsert (ents s) (ttarget t) e1)).
  assert (F1 : frame s s1 id').
  { eapply frame_trans; [apply (frame_upd s id (bump_reg 1) id'); [reflexivity|exact N]|].
    apply (frame_upsert (upd s id (bump_reg 1)) (ttarget t) e e1 id'); [exact A|]. cbn. rewrite In_add. intuition congruence. }
  assert (A1 : alookup (ents s1) (ttarget t) = Some e1) by (unfold s1; cbn; apply alookup_aupsert_same).
  destruct (if ignore then Some s1 else update_state s1 id SRunning [SInitial; SPaused] false fg fp) as [s2|] eqn:Af; cbn [fst].
  - assert (F2 : frame s1 s2 id').
    { destruct ignore; [injection Af as <-; apply frame_refl|apply (frame_update_state _ _ _ _ _ _ _ _ id' Af N)]. }
    eapply frame_trans; [exact F1|]. eapply frame_trans; [exact F2|]. apply frame_upd; [reflexivity|exact N].
  - eapply frame_trans; [exact F1|].
    eapply frame_trans; [apply (frame_upd s1 id (bump_reg (-1)) id'); [reflexivity|exact N]|].
    apply (frame_upsert (upd s1 id (bump_reg (-1))) (ttarget t) e1 _ id'); [exact A1|]. cbn. rewrite In_rm. intuition congruence.
Qed.

Lemma g_ok_start s id ignore fpg fg fp : g_ok s -> g_ok (fst (start s id ignore fpg fg fp)).
Proof.
  intros G. rewrite start_unfold. destruct (find_task s id) as [t|]; [|exact G].
  destruct (alookup (ents s) (ttarget t)) as [e|]; [|exact G]. destruct fpg; [exact G|]. cbn zeta.
  match goal with |- context [update_state ?s1 _ _ _ _ _ _] => set (s1' := s1) end.
  assert (G1 : g_ok s1') by (apply (g_ok_same s); try reflexivity; exact G).
  destruct (if ignore then Some s1' else update_state s1' id SRunning [SInitial; SPaused] false fg fp) as [s2|] eqn:Af; cbn [fst].
  - assert (G2 : g_ok s2) by (destruct ignore; [injection Af as <-; exact G1|apply (g_ok_update_state _ _ _ _ _ _ _ _ Af G1)]).
    apply (g_ok_same s2); try reflexivity; exact G2.
  - apply (g_ok_same s1'); try reflexivity; exact G1.
Qed.

Lemma ent_ok_start s id ignore fpg fg fp : ent_ok s -> (forall tg, ~ in_quit s tg id) -> ent_ok (fst (start s id ignore fpg fg fp)).
Proof.
  intros EO NQ. rewrite start_unfold. destruct (find_task s id) as [t|]; [|exact EO].
  destruct (alookup (ents s) (ttarget t)) as [e|] eqn:A; [|exact EO]. destruct fpg; [exact EO|]. cbn zeta.
  destruct (EO _ _ A) as [ND RC].
  assert (Nin : ~ In id (quit e)) by (intros B; apply (NQ (ttarget t)); exists e; split; assumption).
  set (e1 := {| refcnt := (refcnt e + 1)%Z; quit := add id (quit e) |}).
  set (s1 := set_ents (upd s id (bump_reg 1)) (aupsert (ents s) (ttarget t) e1)).
  assert (EO1 : ent_ok s1).
  { unfold s1. apply (ent_ok_upsert (upd s id (bump_reg 1))); [apply (ent_ok_same s); [reflexivity|exact EO]|apply NoDup_add; exact ND|].
    cbn. rewrite (length_add_new id (quit e) Nin). lia. }
  destruct (if ignore then Some s1 else update_state s1 id SRunning [SInitial; SPaused] false fg fp) as [s2|] eqn:Af; cbn [fst].
  - assert (E2 : ents s2 = ents s1) by (destruct ignore; [injection Af as <-; reflexivity|apply (ents_update_state _ _ _ _ _ _ _ _ Af)]).
    apply (ent_ok_same s1); [exact E2|exact EO1].
  - apply (ent_ok_upsert (upd s1 id (bump_reg (-1)))); [apply (ent_ok_same s1); [reflexivity|exact EO1]| |]; cbn.
    + rewrite (rm_add_notin id _ Nin); exact ND.
    + rewrite (rm_add_notin id _ Nin). lia.
Qed.

Lemma start_self s id ignore fpg fg fp t m v :
  ent_ok s -> find_task s id = Some t -> tid t = id -> mem t = Some m -> sto t = Some v -> v_state m = v_state v ->
  started t = 0%Z -> reg t = 0%Z -> (forall tg, ~ in_quit s tg id) -> (forall x, In id (g_get s x) <-> x = v_state v) ->
  (ignore = true -> v_state v = SRunning) ->
  let r := start s id ignore fpg fg fp in
  (snd r = true -> task_ok (fst r) id)
  /\ (snd r = false -> exists t', find_task (fst r) id = Some t' /\ tid t' = id /\ mem t' = mem t /\ sto t' = sto t
         /\ ttarget t' = ttarget t /\ auto_off t' = auto_off t /\ started t' = 0%Z /\ reg t' = 0%Z
         /\ (forall tg, ~ in_quit (fst r) tg id) /\ (forall x, g_get (fst r) x = g_get s x)).
Proof.
  intros EO F T Mm Ss MV S0 R0 NQ G IG. cbn zeta. rewrite start_unfold, F.
  assert (FL : exists t', find_task s id = Some t' /\ tid t' = id /\ mem t' = mem t /\ sto t' = sto t
         /\ ttarget t' = ttarget t /\ auto_off t' = auto_off t /\ started t' = 0%Z /\ reg t' = 0%Z
         /\ (forall tg, ~ in_quit s tg id) /\ (forall x, g_get s x = g_get s x)).
  { exists t. repeat split; assumption. }
  destruct (alookup (ents s) (ttarget t)) as [e|] eqn:A; [|cbn; split; [discriminate|intros _; exact FL]].
  destruct fpg; [cbn; split; [discriminate|intros _; exact FL]|]. cbn zeta.
  assert (Nin : ~ In id (quit e)) by (intros B; apply (NQ (ttarget t)); exists e; split; assumption).
  set (e1 := {| refcnt := (refcnt e + 1)%Z; quit := add id (quit e) |}).
  set (s1 := set_ents (upd s id (bump_reg 1)) (aupsert (ents s) (ttarget t) e1)).
  assert (F1 : find_task s1 id = Some (bump_reg 1 t)).
  { unfold s1. rewrite find_set_ents, find_upd by reflexivity. rewrite String.eqb_refl, F; reflexivity. }
  assert (G1 : forall x, g_get s1 x = g_get s x) by (intros x; unfold s1; rewrite g_get_set_ents, g_get_upd; reflexivity).
  destruct (if ignore then Some s1 else update_state s1 id SRunning [SInitial; SPaused] false fg fp) as [s2|] eqn:Af; cbn [fst snd].
  - split; [intros _|discriminate].
    assert (X : exists t2, find_task s2 id = Some t2 /\ tid t2 = id /\ ttarget t2 = ttarget t /\ mem t2 = Some m
                 /\ (exists v2, sto t2 = Some v2 /\ v_state v2 = SRunning) /\ started t2 = 0%Z /\ reg t2 = 1%Z
                 /\ ents s2 = ents s1 /\ (forall x, In id (g_get s2 x) <-> x = SRunning)).
    { destruct ignore.
      - injection Af as <-. exists (bump_reg 1 t). cbn [tid ttarget mem sto started reg bump_reg].
        split; [exact F1|]. split; [exact T|]. split; [reflexivity|]. split; [exact Mm|].
        split; [exists v; split; [exact Ss|apply IG; reflexivity]|]. split; [exact S0|]. split; [lia|]. split; [reflexivity|].
        intros x. rewrite G1, G, (IG eq_refl). tauto.
      - destruct (update_state_some _ _ _ _ _ _ _ _ Af) as [t' [v' [F' [S' [_ ->]]]]].
        rewrite F1 in F'; injection F' as <-. cbn in S'. rewrite Ss in S'; injection S' as <-.
        exists (with_sto (Some R) (bump_reg 1 t)). cbn [tid ttarget mem sto started reg bump_reg with_sto].
        split. { rewrite find_g_update. unfold set_sto. rewrite find_upd by reflexivity. rewrite String.eqb_refl, F1; reflexivity. }
        split; [exact T|]. split; [reflexivity|]. split; [exact Mm|].
        split; [exists R; split; reflexivity|]. split; [exact S0|]. split; [lia|].
        split; [rewrite ents_g_update; reflexivity|].
        apply g_update_collapse. intros y. unfold set_sto. rewrite g_get_upd, G1. apply G. }
    destruct X as [t2 [F2 [T2 [TG2 [M2 [[v2 [S2 V2]] [ST2 [RG2 [E2 G2]]]]]]]]].
    set (s3 := upd s2 id now_running).
    assert (F3 : find_task s3 id = Some (now_running t2)).
    { unfold s3. rewrite find_upd by reflexivity. rewrite String.eqb_refl, F2; reflexivity. }
    assert (A3 : activeb (now_running t2) = true) by (unfold activeb, loadedb, runningb; cbn; rewrite S2, V2; reflexivity).
    assert (L3 : lpausedb (now_running t2) = false) by (unfold lpausedb, loadedb, pausedb; cbn; rewrite S2, V2; reflexivity).
    assert (G3 : forall x, In id (g_get s3 x) <-> x = SRunning) by (intros x; unfold s3; rewrite g_get_upd; apply G2).
    unfold task_ok. rewrite F3.
    split. { change (gi s3) with (g_get s3 SInitial). rewrite G3; discriminate. }
    split; [exact T2|]. split.
    { unfold good_task; cbn. rewrite S2. cbn. rewrite V2. repeat split; try discriminate; try lia. }
    split. { change (gr s3) with (g_get s3 SRunning). rewrite G3, A3; tauto. }
    split. { change (gp s3) with (g_get s3 SPaused). rewrite G3, L3. split; discriminate. }
    assert (E3 : ents s3 = aupsert (ents s) (ttarget t) e1) by (unfold s3; cbn; rewrite E2; reflexivity).
    split.
    + intros tg. rewrite A3. cbn [ttarget now_running]. rewrite TG2. unfold in_quit. rewrite E3.
      destruct (String.eqb_spec (ttarget t) tg) as [<-|N].
      * rewrite alookup_aupsert_same. split; [tauto|]. intros _. exists e1; split; [reflexivity|]. cbn. apply In_add; right; reflexivity.
      * rewrite alookup_aupsert_other by exact N. split; [intros H; exfalso; apply (NQ tg H)|]. intros [E _]; congruence.
    + intros _. cbn [ttarget now_running]. rewrite TG2, E3, alookup_aupsert_same; discriminate.
  - split; [discriminate|intros _].
    set (e2 := {| refcnt := (refcnt e + 1 - 1)%Z; quit := rm id (add id (quit e)) |}).
    set (sF := set_ents (upd s1 id (bump_reg (-1))) (aupsert (ents s1) (ttarget t) e2)).
    exists (bump_reg (-1) (bump_reg 1 t)). cbn [tid mem sto started reg bump_reg ttarget auto_off].
    split. { unfold sF. rewrite find_set_ents, find_upd by reflexivity. rewrite String.eqb_refl, F1; reflexivity. }
    split; [exact T|]. split; [reflexivity|]. split; [reflexivity|]. split; [reflexivity|]. split; [reflexivity|].
    split; [exact S0|]. split; [lia|]. split.
    + intros tg [e' [A' B']]. unfold sF, s1 in A'. cbn [set_ents ents upd] in A'.
      destruct (String.eqb_spec (ttarget t) tg) as [<-|N].
      * rewrite alookup_aupsert_same in A'; injection A' as <-. cbn in B'. rewrite (rm_add_notin id _ Nin) in B'. tauto.
      * rewrite !alookup_aupsert_other in A' by exact N. apply (NQ tg). exists e'; split; assumption.
    + intros x. unfold sF. rewrite g_get_set_ents, g_get_upd, G1. reflexivity.
Qed.

(* ---------- delete ---------- *)
Lemma delete_unfold s id fg fc :
  delete s id fg fc =
  match find_task s id with
  | None => (s, false)
  | Some t =>
      if fg then (s, false)
      else match sto t with
           | None => (s, false)
           | Some v => if fc then (s, false)
                       else (release (upd (g_delete (upd s id (with_sto None)) id (v_state v)) id (with_mem None)) id (ttarget t), true)
           end
  end.
Proof. reflexivity. Qed.

Lemma frame_delete s id fg fc id' : ent_ok s -> id' <> id -> frame s (fst (delete s id fg fc)) id'.
Proof.
  intros EO N. rewrite delete_unfold. destruct (find_task s id) as [t|]; [|apply frame_refl].
  destruct fg; [apply frame_refl|]. destruct (sto t) as [v|]; [|apply frame_refl]. destruct fc; [apply frame_refl|]. cbn [fst].
  eapply frame_trans; [apply (frame_upd s id (with_sto None) id'); [reflexivity|exact N]|].
  eapply frame_trans; [apply frame_g_delete; exact N|].
  eapply frame_trans; [apply (frame_upd _ id (with_mem None) id'); [reflexivity|exact N]|].
  apply frame_release; [|exact N]. apply (ent_ok_same s); [cbn; rewrite ents_g_delete; reflexivity|exact EO].
Qed.
Lemma ent_ok_delete s id fg fc : ent_ok s -> ent_ok (fst (delete s id fg fc)).
Proof.
  intros EO. rewrite delete_unfold. destruct (find_task s id) as [t|]; [|exact EO].
  destruct fg; [exact EO|]. destruct (sto t) as [v|]; [|exact EO]. destruct fc; [exact EO|]. cbn [fst].
  apply ent_ok_release. apply (ent_ok_same s); [cbn; rewrite ents_g_delete; reflexivity|exact EO].
Qed.
Lemma g_ok_delete s id fg fc : g_ok s -> g_ok (fst (delete s id fg fc)).
Proof.
  intros G. rewrite delete_unfold. destruct (find_task s id) as [t|]; [|exact G].
  destruct fg; [exact G|]. destruct (sto t) as [v|]; [|exact G]. destruct fc; [exact G|]. cbn [fst].
  apply g_ok_release. apply (g_ok_same (g_delete (upd s id (with_sto None)) id (v_state v))); try reflexivity.
  apply g_ok_g_delete. apply (g_ok_same s); try reflexivity; exact G.
Qed.

Lemma delete_self s id fg fc t v :
  ent_ok s -> find_task s id = Some t -> tid t = id -> sto t = Some v -> wired s id t ->
  (forall x, In id (g_get s x) <-> x = v_state v) ->
  snd (delete s id fg fc) = true -> task_ok (fst (delete s id fg fc)) id.
Proof.
  intros EO F T Ss W G. rewrite delete_unfold, F. destruct fg; [discriminate|]. rewrite Ss. destruct fc; [discriminate|]. intros _. cbn [fst].
  set (s2 := upd (g_delete (upd s id (with_sto None)) id (v_state v)) id (with_mem None)).
  assert (E2 : ents s2 = ents s) by (unfold s2; cbn; rewrite ents_g_delete; reflexivity).
  assert (F2 : find_task s2 id = Some (with_mem None (with_sto None t))).
  { unfold s2. rewrite find_upd by reflexivity. rewrite String.eqb_refl, find_g_delete, find_upd by reflexivity.
    rewrite String.eqb_refl, F; reflexivity. }
  assert (G2 : forall x, ~ In id (g_get s2 x)).
  { intros x. unfold s2. rewrite g_get_upd. unfold g_delete. rewrite g_get_g_set.
    destruct (tstate_eqb_spec (v_state v) x) as [<-|N].
    - rewrite In_rm; tauto.
    - rewrite g_get_upd, G. congruence. }
  assert (EO2 : ent_ok s2) by (apply (ent_ok_same s); assumption).
  assert (GI : forall x, g_get (release s2 id (ttarget t)) x = g_get s2 x) by (intros x; apply g_get_release).
  assert (Q : forall tg, ~ in_quit (release s2 id (ttarget t)) tg id).
  { intros tg H. apply (in_quit_release s2 id (ttarget t) tg EO2) in H. destruct H as [H N].
    rewrite (in_quit_same s s2 tg id E2) in H. destruct W as [[_ [_ W]]|[_ [_ W]]]; [apply N, W, H|apply (W tg H)]. }
  assert (Fin : exists tf, find_task (release s2 id (ttarget t)) id = Some tf
                 /\ tid tf = id /\ mem tf = None /\ sto tf = None /\ started tf = 0%Z /\ reg tf = 0%Z).
  { rewrite find_release_self, F2, E2. destruct W as [[W1 [W2 W3]]|[W1 [W2 W3]]].
    - pose proof (proj2 (W3 (ttarget t)) eq_refl) as [e [A B]]. rewrite A. apply mem_str_In in B. rewrite B.
      eexists; split; [reflexivity|]. cbn. repeat split; try assumption; lia.
    - destruct (alookup (ents s) (ttarget t)) as [e|] eqn:A.
      + destruct (mem_str id (quit e)) eqn:B.
        * exfalso. apply (W3 (ttarget t)). exists e; split; [exact A|apply mem_str_In; exact B].
        * eexists; split; [reflexivity|]. cbn. repeat split; assumption.
      + eexists; split; [reflexivity|]. cbn. repeat split; assumption. }
  destruct Fin as [tf [FF [T1 [T3 [T4 [T5 T6]]]]]].
  unfold task_ok. rewrite FF.
  assert (A0 : activeb tf = false) by (unfold activeb, loadedb; rewrite T3; reflexivity).
  assert (L0 : lpausedb tf = false) by (unfold lpausedb, loadedb; rewrite T3; reflexivity).
  split. { change (gi (release s2 id (ttarget t))) with (g_get (release s2 id (ttarget t)) SInitial). rewrite GI. apply G2. }
  split; [exact T1|]. split. { unfold good_task. rewrite T3. split; assumption. }
  split. { change (gr (release s2 id (ttarget t))) with (g_get (release s2 id (ttarget t)) SRunning). rewrite GI, A0. split; [intros H; exfalso; apply (G2 _ H)|discriminate]. }
  split. { change (gp (release s2 id (ttarget t))) with (g_get (release s2 id (ttarget t)) SPaused). rewrite GI, L0. split; [intros H; exfalso; apply (G2 _ H)|discriminate]. }
  split. { intros tg. rewrite A0. split; [intros H; exfalso; apply (Q tg H)|intros [_ H]; discriminate]. }
  rewrite A0; discriminate.
Qed.

(* what task_ok says about a loaded task *)
Lemma loaded_facts s id t m : task_ok s id -> find_task s id = Some t -> mem t = Some m ->
  exists v, sto t = Some v /\ v_state m = v_state v /\ v_state v <> SInitial /\ wired s id t
            /\ (forall x, In id (g_get s x) <-> x = v_state v) /\ tid t = id.
Proof.
  intros [GI0 TK] F Mm. rewrite F in TK. destruct TK as [T [Gd [Rr [Pp [Q HE]]]]].
  unfold good_task in Gd. rewrite Mm in Gd. destruct (sto t) as [v|] eqn:Ss; [|tauto].
  destruct Gd as [MV [NI [GR GP]]]. exists v. split; [reflexivity|]. split; [exact MV|]. split; [exact NI|].
  assert (AB : activeb t = tstate_eqb (v_state v) SRunning) by (unfold activeb, loadedb, runningb; rewrite Mm, Ss; reflexivity).
  assert (LB : lpausedb t = tstate_eqb (v_state v) SPaused) by (unfold lpausedb, loadedb, pausedb; rewrite Mm, Ss; reflexivity).
  split; [|split; [|exact T]].
  - destruct (v_state v) eqn:V; [congruence| |].
    + left. destruct (GR eq_refl) as [A B]. split; [exact A|]. split; [exact B|]. intros tg. rewrite Q, AB. cbn. intuition.
    + right. destruct (GP eq_refl) as [A B]. split; [exact A|]. split; [exact B|]. intros tg H. apply Q in H. rewrite AB in H. cbn in H. destruct H; discriminate.
  - intros x. destruct x; cbn [g_get].
    + split; [tauto|]. intros E; congruence.
    + rewrite Rr, AB. destruct (tstate_eqb_spec (v_state v) SRunning); split; congruence.
    + rewrite Pp, LB. destruct (tstate_eqb_spec (v_state v) SPaused); split; congruence.
Qed.

(* ---------- API steps preserve GInv ---------- *)
Lemma GInv_ensure s tg : GInv s -> GInv (ensure_ent s tg).
Proof.
  intros I. unfold ensure_ent. destruct (alookup (ents s) tg) eqn:A; [exact I|].
  constructor.
  - intros id. apply (task_ok_frame s); [|apply (gi_task s I)].
    apply frame_insert; [exact A|cbn; tauto].
  - apply ent_ok_upsert; [apply (gi_ent s I)|constructor|reflexivity].
  - apply (g_ok_same s); try reflexivity; apply (gi_g s I).
Qed.

Lemma in_mem_find s id v : in_mem s id = Some v -> exists t, find_task s id = Some t /\ mem t = Some v.
Proof. unfold in_mem. destruct (find_task s id) as [t|]; [|discriminate]. intros H; exists t; split; [reflexivity|exact H]. Qed.

Lemma pause_api_ginv s id fg fp : GInv s -> in_mem s id <> None -> GInv (fst (pause_with s id [SRunning] fg fp)).
Proof.
  intros I IM. destruct (in_mem s id) as [m|] eqn:E; [|congruence]. destruct (in_mem_find _ _ _ E) as [t [F Mm]].
  destruct (loaded_facts s id t m (gi_task s I id) F Mm) as [v [Ss [MV [NI [W [G T]]]]]].
  destruct (update_state s id SPaused [SRunning] true fg fp) as [s1|] eqn:U.
  - apply (GInvX_full _ id).
    + apply (GInvX_frame s); [intros id' N; apply frame_pause_with; [apply (gi_ent s I)|exact N]
                             |apply ent_ok_pause_with, (gi_ent s I)|apply g_ok_pause_with, (gi_g s I)|apply GInv_X; exact I].
    + apply (pause_self s id [SRunning] fg fp t m v s1); try assumption; [apply (gi_ent s I)|left; apply (gi_task s I id)].
  - rewrite pause_with_unfold, U. exact I.
Qed.

Lemma idle_task_ok s id t m v :
  find_task s id = Some t -> tid t = id -> mem t = Some m -> sto t = Some v -> v_state m = v_state v ->
  v_state v = SPaused -> started t = 0%Z -> reg t = 0%Z ->
  (forall tg, ~ in_quit s tg id) -> (forall x, In id (g_get s x) <-> x = SPaused) -> task_ok s id.
Proof.
  intros F T Mm Ss MV VP S0 R0 NQ G. unfold task_ok. rewrite F.
  assert (A0 : activeb t = false) by (unfold activeb, runningb; rewrite Ss, VP; cbn; apply andb_false_r).
  assert (L0 : lpausedb t = true) by (unfold lpausedb, loadedb, pausedb; rewrite Mm, Ss, VP; reflexivity).
  split. { change (gi s) with (g_get s SInitial). rewrite G; discriminate. }
  split; [exact T|]. split.
  { unfold good_task. rewrite Mm, Ss. split; [exact MV|]. split; [rewrite VP; discriminate|]. split; [rewrite VP; discriminate|].
    intros _. repeat split; assumption. }
  split. { change (gr s) with (g_get s SRunning). rewrite G, A0. split; discriminate. }
  split. { change (gp s) with (g_get s SPaused). rewrite G, L0. tauto. }
  split. { intros tg. rewrite A0. split; [intros H; exfalso; apply (NQ tg H)|intros [_ H]; discriminate]. }
  rewrite A0; discriminate.
Qed.

Lemma resume_ginv s id fpg fg fp : GInv s -> in_mem s id <> None ->
  (forall t, find_task s id = Some t -> pausedb t = true) ->
  GInv (fst (start s id false fpg fg fp)).
Proof.
  intros I IM PB. destruct (in_mem s id) as [m|] eqn:E; [|congruence]. destruct (in_mem_find _ _ _ E) as [t [F Mm]].
  destruct (loaded_facts s id t m (gi_task s I id) F Mm) as [v [Ss [MV [NI [W [G T]]]]]].
  pose proof (PB t F) as PBt. unfold pausedb in PBt. rewrite Ss in PBt. destruct (tstate_eqb_spec (v_state v) SPaused) as [VP|]; [|discriminate].
  destruct W as [[_ [_ W]]|[S0 [R0 NQ]]].
  { exfalso. destruct (gi_task s I id) as [_ TK]. rewrite F in TK. destruct TK as [_ [_ [_ [_ [Q _]]]]].
    pose proof (proj1 (Q (ttarget t)) (proj2 (W (ttarget t)) eq_refl)) as [_ A].
    unfold activeb, runningb in A. rewrite Ss, VP in A. cbn in A. rewrite andb_false_r in A; discriminate. }
  pose proof (start_self s id false fpg fg fp t m v (gi_ent s I) F T Mm Ss MV S0 R0 NQ G ltac:(discriminate)) as [OK KO].
  cbn zeta in OK, KO.
  apply (GInvX_full _ id).
  - apply (GInvX_frame s); [intros id' N; apply frame_start; exact N|apply ent_ok_start; [apply (gi_ent s I)|exact NQ]
                           |apply g_ok_start, (gi_g s I)|apply GInv_X; exact I].
  - destruct (snd (start s id false fpg fg fp)) eqn:Sn; [apply OK; reflexivity|].
    destruct (KO eq_refl) as [t' [F' [T' [M' [S' [_ [_ [S0' [R0' [NQ' G']]]]]]]]]].
    apply (idle_task_ok _ id t' m v); try assumption; try tauto; try congruence.
    intros x. rewrite G', G, VP. tauto.
Qed.

Lemma delete_ginv s id fg fc : GInv s -> in_mem s id <> None -> GInv (fst (delete s id fg fc)).
Proof.
  intros I IM. destruct (in_mem s id) as [m|] eqn:E; [|congruence]. destruct (in_mem_find _ _ _ E) as [t [F Mm]].
  destruct (loaded_facts s id t m (gi_task s I id) F Mm) as [v [Ss [MV [NI [W [G T]]]]]].
  destruct (snd (delete s id fg fc)) eqn:Sn.
  - apply (GInvX_full _ id).
    + apply (GInvX_frame s); [intros id' N; apply frame_delete; [apply (gi_ent s I)|exact N]
                             |apply ent_ok_delete, (gi_ent s I)|apply g_ok_delete, (gi_g s I)|apply GInv_X; exact I].
    + apply (delete_self s id fg fc t v); try assumption. apply (gi_ent s I).
  - rewrite delete_unfold, F, Ss in *. destruct fg; [exact I|]. destruct fc; [exact I|discriminate].
Qed.

(* ---------- create ---------- *)
Definition insert_fresh (s : st) (id : string) (fresh : trec) : st :=
  {| ts := (filter (fun t => negb (String.eqb (tid t) id)) (ts s)) ++ [fresh]; ents := ents s; gi := gi s; gr := gr s; gp := gp s |}.

Lemma find_insert_fresh s id fresh id' : tid fresh = id ->
  find_task (insert_fresh s id fresh) id' = if String.eqb id' id then Some fresh else find_task s id'.
Proof.
  intros T. unfold find_task, insert_fresh; cbn [ts].
  induction (ts s) as [|t r IH]; cbn [filter app find].
  - rewrite T. destruct (String.eqb_spec id id'), (String.eqb_spec id' id); try congruence; reflexivity.
  - destruct (String.eqb_spec (tid t) id) as [E|N]; cbn [negb].
    + destruct (String.eqb_spec (tid t) id') as [E'|N'].
      * destruct (String.eqb_spec id' id); [exact IH|congruence].
      * exact IH.
    + cbn [app find]. destruct (String.eqb_spec (tid t) id') as [E'|N'].
      * destruct (String.eqb_spec id' id); [congruence|reflexivity].
      * exact IH.
Qed.

Lemma frame_insert_fresh s id fresh id' : tid fresh = id -> id' <> id -> frame s (insert_fresh s id fresh) id'.
Proof.
  intros T N. constructor.
  - rewrite find_insert_fresh by exact T. destruct (String.eqb_spec id' id); [congruence|reflexivity].
  - intros x; destruct x; cbn; tauto.
  - apply ents_frame_same; reflexivity.
Qed.

Notation I0 := {| v_state := SInitial; v_reason := false |}.

Lemma create_ginv s id tg aoff f : GInv s -> in_mem s id = None ->
  let fresh := {| tid := id; ttarget := tg; auto_off := aoff; mem := Some I0; sto := Some I0; started := 0; reg := 0 |} in
  let s1 := g_add (insert_fresh s id fresh) id SInitial in
  let r := start s1 id false (fails f KPosGet 1) (fails f KTaskGet 2) (fails f KTaskPut 2) in
  GInv (if snd r then fst r else fst (delete (fst r) id false false)).
Proof.
  intros I IM fresh s1 r.
  (* what the invariant knew about this id before *)
  destruct (gi_task s I id) as [GI0 TK].
  assert (Pre : ~ In id (gr s) /\ ~ In id (gp s) /\ forall tg', ~ in_quit s tg' id).
  { unfold in_mem in IM. destruct (find_task s id) as [t|] eqn:F.
    - destruct TK as [_ [_ [Rr [Pp [Q _]]]]].
      assert (A0 : activeb t = false) by (unfold activeb, loadedb; rewrite IM; reflexivity).
      assert (L0 : lpausedb t = false) by (unfold lpausedb, loadedb; rewrite IM; reflexivity).
      rewrite A0 in Rr, Q. rewrite L0 in Pp. repeat split.
      + intros H; apply Rr in H; discriminate.
      + intros H; apply Pp in H; discriminate.
      + intros tg' H. apply Q in H. destruct H; discriminate.
    - exact TK. }
  destruct Pre as [NR [NP NQ]].
  assert (F1 : find_task s1 id = Some fresh).
  { unfold s1. rewrite find_g_add, find_insert_fresh by reflexivity. rewrite String.eqb_refl; reflexivity. }
  assert (E1 : ents s1 = ents s) by (unfold s1; rewrite ents_g_add; reflexivity).
  assert (NQ1 : forall tg', ~ in_quit s1 tg' id) by (intros tg' H; rewrite (in_quit_same s s1 tg' id E1) in H; apply (NQ tg' H)).
  assert (G1 : forall x, In id (g_get s1 x) <-> x = SInitial).
  { intros x. unfold s1, g_add. rewrite g_get_g_set. destruct x; cbn [tstate_eqb].
    - rewrite In_add. tauto.
    - cbn. split; [intros H; exfalso; apply NR; exact H|discriminate].
    - cbn. split; [intros H; exfalso; apply NP; exact H|discriminate]. }
  assert (EO1 : ent_ok s1) by (apply (ent_ok_same s); [exact E1|apply (gi_ent s I)]).
  assert (GO1 : g_ok s1) by (unfold s1; apply g_ok_g_add; apply (g_ok_same s); try reflexivity; apply (gi_g s I)).
  assert (X1 : GInvX s1 id).
  { apply (GInvX_frame s); [|exact EO1|exact GO1|apply GInv_X; exact I].
    intros id' N. eapply frame_trans; [apply (frame_insert_fresh s id fresh id'); [reflexivity|exact N]|apply frame_g_add; exact N]. }
  pose proof (start_self s1 id false (fails f KPosGet 1) (fails f KTaskGet 2) (fails f KTaskPut 2) fresh I0 I0
                EO1 F1 eq_refl eq_refl eq_refl eq_refl eq_refl eq_refl NQ1 G1 ltac:(discriminate)) as [OK KO].
  cbn zeta in OK, KO. fold r in OK, KO.
  assert (X2 : GInvX (fst r) id).
  { apply (GInvX_frame s1); [intros id' N; apply frame_start; exact N|apply ent_ok_start; assumption|apply g_ok_start; exact GO1|exact X1]. }
  destruct (snd r) eqn:Sn.
  - apply (GInvX_full _ id X2). apply OK; reflexivity.
  - destruct (KO eq_refl) as [t' [F' [T' [M' [S' [_ [_ [S0' [R0' [NQ' G']]]]]]]]]]. cbn in M', S'.
    apply (GInvX_full _ id).
    + apply (GInvX_frame (fst r)); [intros id' N; apply frame_delete; [apply (gx_ent _ _ X2)|exact N]
                                   |apply ent_ok_delete, (gx_ent _ _ X2)|apply g_ok_delete, (gx_g _ _ X2)|exact X2].
    + apply (delete_self (fst r) id false false t' I0); try assumption; try apply (gx_ent _ _ X2).
      * right. split; [exact S0'|]. split; [exact R0'|exact NQ'].
      * intros x. rewrite G'. apply G1.
      * rewrite delete_unfold, F', S'. reflexivity.
Qed.

(* ---------- every API call preserves the invariant ---------- *)
Lemma in_mem_ensure s tg id : in_mem (ensure_ent s tg) id = in_mem s id.
Proof. unfold ensure_ent. destruct (alookup (ents s) tg); reflexivity. Qed.
Lemma find_ensure s tg id : find_task (ensure_ent s tg) id = find_task s id.
Proof. unfold ensure_ent. destruct (alookup (ents s) tg); reflexivity. Qed.

Definition is_restart (o : op) : bool := match o with Restart _ => true | _ => false end.

Lemma step_api_ginv s o : is_restart o = false -> GInv s -> GInv (fst (step s o)).
Proof.
  intros NR I. destruct o as [id tg aoff f|id f|id f|id f|id f|f]; try discriminate; cbn [step].
  - (* create *)
    pose proof (GInv_ensure s tg I) as I1. set (s1 := ensure_ent s tg) in *.
    destruct (in_mem s1 id) eqn:IM; [exact I1|].
    destruct (fails f KTaskGet 1 || fails f KPosPut 1 || fails f KTaskPut 1); [exact I1|].
    pose proof (create_ginv s1 id tg aoff f I1 IM) as C. cbn zeta in C.
    match goal with |- context [start ?a id false ?b ?c ?d] => change a with (g_add (insert_fresh s1 id {| tid := id; ttarget := tg; auto_off := aoff; mem := Some I0; sto := Some I0; started := 0; reg := 0 |}) id SInitial) end.
    destruct (start _ id false _ _ _) as [s2 ok]. cbn [fst snd] in *. destruct ok; exact C.
  - (* pause *)
    destruct (in_mem s id) as [v|] eqn:IM; [|exact I].
    set (s1 := match find_task s id with Some t => ensure_ent s (ttarget t) | None => s end).
    assert (I1 : GInv s1) by (unfold s1; destruct (find_task s id); [apply GInv_ensure|]; exact I).
    assert (IM1 : in_mem s1 id = Some v) by (unfold s1; destruct (find_task s id); [rewrite in_mem_ensure|]; exact IM).
    destruct (tstate_eqb (v_state v) SPaused); [exact I1|].
    pose proof (pause_api_ginv s1 id (fails f KTaskGet 1) (fails f KTaskPut 1) I1 ltac:(rewrite IM1; discriminate)) as X.
    destruct (pause_with s1 id [SRunning] _ _) as [s2 ok]. exact X.
  - (* resume *)
    destruct (in_mem s id) as [v|] eqn:IM; [|exact I].
    set (s1 := match find_task s id with Some t => ensure_ent s (ttarget t) | None => s end).
    assert (I1 : GInv s1) by (unfold s1; destruct (find_task s id); [apply GInv_ensure|]; exact I).
    assert (IM1 : in_mem s1 id = Some v) by (unfold s1; destruct (find_task s id); [rewrite in_mem_ensure|]; exact IM).
    destruct (tstate_eqb_spec (v_state v) SRunning) as [VR|VR]; [exact I1|].
    assert (PB : forall t, find_task s1 id = Some t -> pausedb t = true).
    { intros t F. destruct (in_mem_find _ _ _ IM1) as [t' [F' Mm]]. rewrite F in F'; injection F' as <-.
      destruct (loaded_facts s1 id t v (gi_task s1 I1 id) F Mm) as [v' [Ss [MV [NI _]]]].
      unfold pausedb. rewrite Ss. destruct (v_state v') eqn:E; try reflexivity; congruence. }
    pose proof (resume_ginv s1 id (fails f KPosGet 1) (fails f KTaskGet 1) (fails f KTaskPut 1) I1 ltac:(rewrite IM1; discriminate) PB) as X.
    destruct (start s1 id false _ _ _) as [s2 ok]. exact X.
  - (* delete *)
    destruct (in_mem s id) as [v|] eqn:IM; [|exact I].
    set (s1 := match find_task s id with Some t => ensure_ent s (ttarget t) | None => s end).
    assert (I1 : GInv s1) by (unfold s1; destruct (find_task s id); [apply GInv_ensure|]; exact I).
    assert (IM1 : in_mem s1 id = Some v) by (unfold s1; destruct (find_task s id); [rewrite in_mem_ensure|]; exact IM).
    pose proof (delete_ginv s1 id (fails f KTaskGet 1) (fails f KCommit 1) I1 ltac:(rewrite IM1; discriminate)) as X.
    destruct (delete s1 id _ _) as [s2 ok]. exact X.
  - (* get *)
    destruct (fails f KTaskGet 1); [exact I|]. destruct (find_task s id) as [t|]; [destruct (sto t)|]; exact I.
Qed.

(* ---------- the list of task ids ---------- *)
Definition ids (s : st) : list string := map tid (ts s).
Lemma ids_upd s id g : (forall t, tid (g t) = tid t) -> ids (upd s id g) = ids s.
Proof.
  intros Hg. unfold ids, upd; cbn [ts]. rewrite map_map. apply map_ext. intros t. destruct (String.eqb (tid t) id); [apply Hg|reflexivity].
Qed.
Lemma ids_g_set s x l : ids (g_set s x l) = ids s. Proof. unfold ids; rewrite ts_g_set; reflexivity. Qed.
Lemma ids_g_update s id n o : ids (g_update s id n o) = ids s.
Proof. unfold g_update. destruct (mem_str id (g_get s o)); [|reflexivity]. unfold g_add, g_delete. rewrite !ids_g_set; reflexivity. Qed.
Lemma ids_release s id tg : ids (release s id tg) = ids s.
Proof.
  rewrite release_unfold. destruct (alookup (ents s) tg) as [e|]; [|reflexivity].
  destruct (mem_str id (quit e)); cbn zeta; destruct (_ =? 0)%Z; try reflexivity; apply (ids_upd s id reset_counters); reflexivity.
Qed.
Lemma ids_update_state s id new guard reason fg fp s' : update_state s id new guard reason fg fp = Some s' -> ids s' = ids s.
Proof.
  intros H. destruct (update_state_some _ _ _ _ _ _ _ _ H) as [t [v [_ [_ [_ ->]]]]]. rewrite ids_g_update. apply ids_upd; reflexivity.
Qed.
Lemma ids_pause_with s id guard fg fp : ids (fst (pause_with s id guard fg fp)) = ids s.
Proof.
  rewrite pause_with_unfold. destruct (update_state s id SPaused guard true fg fp) as [s1|] eqn:U.
  - pose proof (ids_update_state _ _ _ _ _ _ _ _ U) as E. destruct (find_task s1 id) as [t|]; [|exact E]. destruct (mem t); [|exact E].
    cbn [fst]. rewrite ids_release, ids_upd by reflexivity. exact E.
  - destruct guard as [|g0 gl]; [|reflexivity]. destruct (find_task s id) as [t|]; [|reflexivity]. destruct (mem t); [|reflexivity].
    cbn [fst]. rewrite ids_release, ids_upd by reflexivity. reflexivity.
Qed.
Lemma ids_start s id ignore fpg fg fp : ids (fst (start s id ignore fpg fg fp)) = ids s.
Proof.
  rewrite start_unfold. destruct (find_task s id) as [t|]; [|reflexivity].
  destruct (alookup (ents s) (ttarget t)) as [e|]; [|reflexivity]. destruct fpg; [reflexivity|]. cbn zeta.
  match goal with |- context [update_state ?s1 _ _ _ _ _ _] => set (s1' := s1) end.
  assert (E1 : ids s1' = ids s) by (unfold s1'; apply (ids_upd s id (bump_reg 1)); reflexivity).
  destruct (if ignore then Some s1' else update_state s1' id SRunning [SInitial; SPaused] false fg fp) as [s2|] eqn:Af; cbn [fst].
  - assert (E2 : ids s2 = ids s1') by (destruct ignore; [injection Af as <-; reflexivity|apply (ids_update_state _ _ _ _ _ _ _ _ Af)]).
    rewrite ids_upd by reflexivity. congruence.
  - unfold ids in *. cbn [set_ents ts]. fold (ids (upd s1' id (bump_reg (-1)))). rewrite ids_upd by reflexivity. exact E1.
Qed.
Lemma ids_delete s id fg fc : ids (fst (delete s id fg fc)) = ids s.
Proof.
  rewrite delete_unfold. destruct (find_task s id) as [t|]; [|reflexivity]. destruct fg; [reflexivity|].
  destruct (sto t) as [v|]; [|reflexivity]. destruct fc; [reflexivity|]. cbn [fst].
  rewrite ids_release, ids_upd by reflexivity. unfold g_delete. rewrite ids_g_set. apply ids_upd; reflexivity.
Qed.
Lemma ids_ensure s tg : ids (ensure_ent s tg) = ids s.
Proof. unfold ensure_ent. destruct (alookup (ents s) tg); reflexivity. Qed.

Lemma find_in_nodup s t : NoDup (ids s) -> In t (ts s) -> find_task s (tid t) = Some t.
Proof.
  unfold ids, find_task. induction (ts s) as [|x r IH]; cbn; intros ND H; [tauto|].
  inversion ND as [|? ? Nx Nr]; subst. destruct H as [->|H].
  - rewrite String.eqb_refl; reflexivity.
  - destruct (String.eqb_spec (tid x) (tid t)) as [E|N]; [|apply IH; assumption].
    exfalso. apply Nx. rewrite E. apply in_map; exact H.
Qed.

(* ---------- no call ever produces a stored-but-not-loaded task (only a crash does) ---------- *)
Definition unloaded (s : st) (id : string) : Prop := exists t, find_task s id = Some t /\ mem t = None /\ sto t <> None.

Lemma unl_upd s id g id' : (forall t, tid (g t) = tid t) ->
  (forall t, mem (g t) = None -> sto (g t) <> None -> mem t = None /\ sto t <> None) ->
  unloaded (upd s id g) id' -> unloaded s id'.
Proof.
  intros Hg Hn [t' [F [M S]]]. rewrite find_upd in F by exact Hg. destruct (String.eqb id id'); [|exists t'; auto].
  destruct (find_task s id') as [t|] eqn:F0; [|discriminate]. cbn in F. injection F as <-. exists t. split; [exact F0|]. apply Hn; assumption.
Qed.
Lemma unl_same s s' id' : (forall i, find_task s' i = find_task s i) -> unloaded s' id' -> unloaded s id'.
Proof. intros E [t H]. rewrite E in H. exists t; exact H. Qed.

Lemma unl_release s id tg id' : unloaded (release s id tg) id' -> unloaded s id'.
Proof.
  rewrite release_unfold. destruct (alookup (ents s) tg) as [e|]; [|tauto].
  destruct (mem_str id (quit e)); cbn zeta; destruct (_ =? 0)%Z; intros H; try exact H.
  all: apply (unl_upd s id reset_counters id'); [reflexivity|cbn; tauto|]; apply (unl_same _ _ id' (fun i => eq_refl)) in H; exact H.
Qed.
Lemma unl_update_state s id new guard reason fg fp s' id' :
  update_state s id new guard reason fg fp = Some s' -> unloaded s' id' -> unloaded s id'.
Proof.
  intros H U. destruct (update_state_some _ _ _ _ _ _ _ _ H) as [t [v [F [S [_ ->]]]]].
  apply (unl_same (upd s id (with_sto (Some {| v_state := new; v_reason := reason |})))) in U; [|intros i; apply find_g_update].
  destruct U as [t' [F' [M' S']]]. rewrite find_upd in F' by reflexivity.
  destruct (String.eqb_spec id id') as [<-|N]; [|exists t'; auto].
  rewrite F in F'. injection F' as <-. exists t. cbn in M'. split; [exact F|]. split; [exact M'|congruence].
Qed.
Lemma unl_pause_with s id guard fg fp id' : unloaded (fst (pause_with s id guard fg fp)) id' -> unloaded s id'.
Proof.
  rewrite pause_with_unfold. destruct (update_state s id SPaused guard true fg fp) as [s1|] eqn:U.
  - intros H. apply (unl_update_state _ _ _ _ _ _ _ _ id' U).
    destruct (find_task s1 id) as [t|]; [|exact H]. destruct (mem t); [|exact H]. cbn [fst] in H.
    apply unl_release in H. apply (unl_upd s1 id (with_mem (Some P)) id') in H; [exact H|reflexivity|cbn; intros; discriminate].
  - destruct guard as [|g0 gl]; [|tauto]. destruct (find_task s id) as [t|]; [|tauto]. destruct (mem t); [|tauto]. cbn [fst].
    intros H. apply unl_release in H. apply (unl_upd s id (with_mem (Some P)) id') in H; [exact H|reflexivity|cbn; intros; discriminate].
Qed.
Lemma unl_start s id ignore fpg fg fp id' : unloaded (fst (start s id ignore fpg fg fp)) id' -> unloaded s id'.
Proof.
  rewrite start_unfold. destruct (find_task s id) as [t|]; [|tauto].
  destruct (alookup (ents s) (ttarget t)) as [e|]; [|tauto]. destruct fpg; [tauto|]. cbn zeta.
  match goal with |- context [update_state ?s1 _ _ _ _ _ _] => set (s1' := s1) end.
  assert (U1 : unloaded s1' id' -> unloaded s id').
  { intros H. apply (unl_same (upd s id (bump_reg 1))) in H; [|intros i; reflexivity].
    apply (unl_upd s id (bump_reg 1) id') in H; [exact H|reflexivity|cbn; tauto]. }
  destruct (if ignore then Some s1' else update_state s1' id SRunning [SInitial; SPaused] false fg fp) as [s2|] eqn:Af; cbn [fst]; intros H.
  - apply U1. apply (unl_upd s2 id now_running id') in H; [|reflexivity|cbn; intros; discriminate].
    destruct ignore; [injection Af as <-; exact H|apply (unl_update_state _ _ _ _ _ _ _ _ id' Af H)].
  - apply U1. apply (unl_same (upd s1' id (bump_reg (-1)))) in H; [|intros i; reflexivity].
    apply (unl_upd s1' id (bump_reg (-1)) id') in H; [exact H|reflexivity|cbn; tauto].
Qed.
Lemma unl_delete s id fg fc id' : unloaded (fst (delete s id fg fc)) id' -> unloaded s id'.
Proof.
  rewrite delete_unfold. destruct (find_task s id) as [t|]; [|tauto]. destruct fg; [tauto|].
  destruct (sto t) as [v|]; [|tauto]. destruct fc; [tauto|]. cbn [fst]. intros H.
  apply unl_release in H. destruct H as [t' [F' [M' S']]].
  rewrite find_upd in F' by reflexivity. rewrite find_g_delete, find_upd in F' by reflexivity.
  destruct (String.eqb id id'); [|exists t'; auto].
  destruct (find_task s id') as [t0|]; [|discriminate]. cbn in F'. injection F' as <-. cbn in S'. congruence.
Qed.

(* ---------- crash and reload ---------- *)
Definition wipe (t : trec) : trec :=
  {| tid := tid t; ttarget := ttarget t; auto_off := auto_off t; mem := None; sto := sto t; started := 0; reg := 0 |}.

Lemma fold_ensure_prop (Pr : st -> Prop) (l : list trec) s :
  Pr s -> (forall s tg, Pr s -> Pr (ensure_ent s tg)) -> Pr (fold_left (fun s t => ensure_ent s (ttarget t)) l s).
Proof. intros H Hs. revert s H. induction l as [|t r IH]; cbn; intros s H; [exact H|]. apply IH, Hs, H. Qed.

Lemma find_wiped l id : find (fun t => String.eqb (tid t) id) (map wipe l) = option_map wipe (find (fun t => String.eqb (tid t) id) l).
Proof. induction l as [|t r IH]; cbn; [reflexivity|]. destruct (String.eqb (tid t) id); [reflexivity|exact IH]. Qed.

Lemma crashed_props s0 :
  GInv (crashed s0) /\ ts (crashed s0) = map wipe (ts s0)
  /\ (forall id t, find_task (crashed s0) id = Some t -> mem t = None /\ started t = 0%Z /\ reg t = 0%Z).
Proof.
  unfold crashed. set (sr := {| ts := _; ents := []; gi := []; gr := []; gp := [] |}).
  apply (fold_ensure_prop (fun s => GInv s /\ ts s = map wipe (ts s0)
                                   /\ (forall id t, find_task s id = Some t -> mem t = None /\ started t = 0%Z /\ reg t = 0%Z))).
  - assert (FW : forall id t, find_task sr id = Some t -> tid t = id /\ mem t = None /\ started t = 0%Z /\ reg t = 0%Z).
    { intros id t F. split; [apply (find_task_tid sr id t F)|].
      unfold find_task, sr in F; cbn [ts] in F. change (map _ (ts s0)) with (map wipe (ts s0)) in F. rewrite find_wiped in F.
      destruct (find _ (ts s0)) as [t0|]; [|discriminate]. injection F as <-. cbn. auto. }
    split; [|split; [reflexivity|intros id t F; apply (FW id t F)]].
    constructor.
    + intros id. unfold task_ok. split; [cbn; tauto|]. destruct (find_task sr id) as [t|] eqn:F.
      * destruct (FW id t F) as [T [M [S0 R0]]].
        assert (A0 : activeb t = false) by (unfold activeb, loadedb; rewrite M; reflexivity).
        assert (L0 : lpausedb t = false) by (unfold lpausedb, loadedb; rewrite M; reflexivity).
        split; [exact T|]. split; [unfold good_task; rewrite M; split; assumption|].
        split; [rewrite A0; cbn; split; [tauto|discriminate]|]. split; [rewrite L0; cbn; split; [tauto|discriminate]|].
        split; [|rewrite A0; discriminate].
        intros tg. rewrite A0. split; [intros [e [H _]]; discriminate|intros [_ H]; discriminate].
      * cbn. repeat split; try tauto. intros tg [e [H _]]; discriminate.
    + intros tg e H; discriminate.
    + repeat split; constructor.
  - intros s tg [I [T U]]. split; [apply GInv_ensure; exact I|]. split.
    + unfold ensure_ent. destruct (alookup (ents s) tg); exact T.
    + intros id t F. rewrite find_ensure in F. apply (U id t F).
Qed.

Lemma update_state_plain s id t v new reason :
  find_task s id = Some t -> sto t = Some v ->
  update_state s id new [] reason false false
  = Some (g_update (upd s id (with_sto (Some {| v_state := new; v_reason := reason |}))) id new (v_state v)).
Proof. intros F S. unfold update_state. rewrite F, S. reflexivity. Qed.

Lemma reload_one_ok f s k t t' v :
  GInv s -> find_task s (tid t) = Some t' -> mem t' = None -> sto t' = Some v -> sto t = Some v -> auto_off t' = auto_off t ->
  let s' := fst (reload_one f (s, k) t) in
  GInv s' /\ (forall id', id' <> tid t -> find_task s' id' = find_task s id') /\ ~ unloaded s' (tid t)
  /\ (forall id', unloaded s' id' -> unloaded s id') /\ ids s' = ids s.
Proof.
  intros I F M' S' St AO. set (id := tid t) in *.
  unfold reload_one. rewrite St. cbn zeta. fold id.
  destruct (gi_task s I id) as [GI0 TK]. rewrite F in TK. destruct TK as [T [Gd [Rr [Pp [Q _]]]]].
  unfold good_task in Gd. rewrite M' in Gd. destruct Gd as [S0 R0].
  assert (A0 : activeb t' = false) by (unfold activeb, loadedb; rewrite M'; reflexivity).
  assert (L0 : lpausedb t' = false) by (unfold lpausedb, loadedb; rewrite M'; reflexivity).
  assert (NQ : forall tg, ~ in_quit s tg id) by (intros tg H; apply Q in H; rewrite A0 in H; destruct H; discriminate).
  set (s1 := g_add (set_mem s id (Some v)) id (v_state v)).
  set (t1 := with_mem (Some v) t').
  assert (F1 : find_task s1 id = Some t1).
  { unfold s1, set_mem. rewrite find_g_add, find_upd by reflexivity. rewrite String.eqb_refl, F; reflexivity. }
  assert (E1 : ents s1 = ents s) by (unfold s1; rewrite ents_g_add; reflexivity).
  assert (NQ1 : forall tg, ~ in_quit s1 tg id) by (intros tg H; rewrite (in_quit_same s s1 tg id E1) in H; apply (NQ tg H)).
  assert (G1 : forall x, In id (g_get s1 x) <-> x = v_state v).
  { intros x. unfold s1, g_add, set_mem. rewrite g_get_g_set. destruct (tstate_eqb_spec (v_state v) x) as [<-|N].
    - rewrite In_add; tauto.
    - rewrite g_get_upd. split; [|congruence]. intros H. exfalso. destruct x; cbn in H.
      + apply GI0, H. + apply Rr in H; rewrite A0 in H; discriminate. + apply Pp in H; rewrite L0 in H; discriminate. }
  assert (EO1 : ent_ok s1) by (apply (ent_ok_same s); [exact E1|apply (gi_ent s I)]).
  assert (GO1 : g_ok s1) by (unfold s1; apply g_ok_g_add; apply (g_ok_same s); try reflexivity; apply (gi_g s I)).
  assert (FR1 : forall id', id' <> id -> frame s s1 id').
  { intros id' N. unfold s1, set_mem. eapply frame_trans; [apply (frame_upd s id (with_mem (Some v)) id'); [reflexivity|exact N]|apply frame_g_add; exact N]. }
  assert (X1 : GInvX s1 id) by (apply (GInvX_frame s); [exact FR1|exact EO1|exact GO1|apply GInv_X; exact I]).
  assert (U1 : forall id', unloaded s1 id' -> unloaded s id' /\ id' <> id).
  { intros id' [tx [Fx [Mx Sx]]]. destruct (String.eqb_spec id' id) as [->|N].
    - rewrite F1 in Fx; injection Fx as <-. cbn in Mx; discriminate.
    - split; [|exact N]. exists tx. rewrite <- (f_find _ _ _ (FR1 id' N)). auto. }
  assert (ID1 : ids s1 = ids s) by (unfold s1, g_add, set_mem; rewrite ids_g_set; apply ids_upd; reflexivity).
  assert (T1 : tid t1 = id) by exact T.
  (* a helper for the two places where the task ends up paused by pause_with [] *)
  assert (PW : forall sx tx, GInvX sx id -> find_task sx id = Some tx -> tid tx = id -> mem tx = Some v -> sto tx = Some v ->
                 started tx = 0%Z -> reg tx = 0%Z -> (forall tg, ~ in_quit sx tg id) -> (forall x, In id (g_get sx x) <-> x = v_state v) ->
                 GInv (fst (pause_with sx id [] false false))).
  { intros sx tx GX Fx Tx Mx Sx S0x R0x NQx Gx.
    apply (GInvX_full _ id).
    - apply (GInvX_frame sx); [intros id' N; apply frame_pause_with; [apply (gx_ent _ _ GX)|exact N]
                              |apply ent_ok_pause_with, (gx_ent _ _ GX)|apply g_ok_pause_with, (gx_g _ _ GX)|exact GX].
    - pose proof (update_state_plain sx id tx v SPaused true Fx Sx) as UU.
      eapply (pause_self sx id [] false false tx v v); [apply (gx_ent _ _ GX)|exact Fx|exact Tx|exact Mx|exact Sx|right; auto|exact Gx| |exact UU].
      destruct (tstate_eqb_spec (v_state v) SInitial) as [E|N]; [right; exact E|left].
      intros H. apply (proj1 (Gx SInitial)) in H. congruence. }
  destruct (auto_off t) eqn:AOt.
  - (* auto start disabled *)
    destruct (tstate_eqb_spec (v_state v) SPaused) as [VP|VP]; cbn [fst].
    + split; [|split; [|split; [|split]]].
      * apply (GInvX_full _ id X1). apply (idle_task_ok s1 id t1 v v); try assumption; try reflexivity. intros x. rewrite G1, VP; tauto.
      * intros id' N. apply (f_find _ _ _ (FR1 id' N)).
      * intros H. destruct (U1 _ H) as [_ N]; congruence.
      * intros id' H. apply (U1 id' H).
      * exact ID1.
    + split; [|split; [|split; [|split]]].
      * apply (PW s1 t1); try assumption; reflexivity.
      * intros id' N. rewrite (f_find _ _ _ (frame_pause_with s1 id [] false false id' EO1 N)). apply (f_find _ _ _ (FR1 id' N)).
      * intros H. apply unl_pause_with in H. destruct (U1 _ H) as [_ N]; congruence.
      * intros id' H. apply unl_pause_with in H. apply (U1 id' H).
      * rewrite ids_pause_with. exact ID1.
  - (* started (or paused when the start fails) *)
    set (r := start s1 id (tstate_eqb (v_state v) SRunning) (fails f KPosGet (S k)) false false).
    pose proof (start_self s1 id (tstate_eqb (v_state v) SRunning) (fails f KPosGet (S k)) false false t1 v v
                  EO1 F1 T1 eq_refl S' eq_refl S0 R0 NQ1 G1) as SS.
    assert (IG : tstate_eqb (v_state v) SRunning = true -> v_state v = SRunning) by (destruct (tstate_eqb_spec (v_state v) SRunning); congruence).
    specialize (SS IG). cbn zeta in SS. fold r in SS. destruct SS as [OK KO].
    assert (X2 : GInvX (fst r) id).
    { apply (GInvX_frame s1); [intros id' N; apply frame_start; exact N|apply ent_ok_start; assumption|apply g_ok_start; exact GO1|exact X1]. }
    destruct (snd r) eqn:Sn; cbn [fst].
    + split; [|split; [|split; [|split]]].
      * apply (GInvX_full _ id X2). apply OK; reflexivity.
      * intros id' N. unfold r. rewrite (f_find _ _ _ (frame_start s1 id _ _ _ _ id' N)). apply (f_find _ _ _ (FR1 id' N)).
      * intros H. apply unl_start in H. destruct (U1 _ H) as [_ N]; congruence.
      * intros id' H. apply unl_start in H. apply (U1 id' H).
      * unfold r. rewrite ids_start. exact ID1.
    + destruct (KO eq_refl) as [t2 [F2 [T2 [M2 [S2 [_ [_ [S02 [R02 [NQ2 G2]]]]]]]]]]. cbn [mem sto t1 with_mem] in M2, S2. rewrite S' in S2.
      split; [|split; [|split; [|split]]].
      * apply (PW (fst r) t2); try assumption. intros x. rewrite G2. apply G1.
      * intros id' N. rewrite (f_find _ _ _ (frame_pause_with (fst r) id [] false false id' (gx_ent _ _ X2) N)).
        unfold r. rewrite (f_find _ _ _ (frame_start s1 id _ _ _ _ id' N)). apply (f_find _ _ _ (FR1 id' N)).
      * intros H. apply unl_pause_with in H. apply unl_start in H. destruct (U1 _ H) as [_ N]; congruence.
      * intros id' H. apply unl_pause_with in H. apply unl_start in H. apply (U1 id' H).
      * rewrite ids_pause_with. unfold r. rewrite ids_start. exact ID1.
Qed.

Lemma reload_fold f : forall l s k,
  GInv s -> NoDup (map tid l) ->
  (forall t, In t l -> exists v, sto t = Some v /\ find_task s (tid t) = Some t /\ mem t = None) ->
  let s' := fst (fold_left (reload_one f) l (s, k)) in
  GInv s' /\ ids s' = ids s /\ (forall id', unloaded s' id' -> unloaded s id' /\ ~ In id' (map tid l)).
Proof.
  induction l as [|t r IH]; intros s k I ND H; cbn [fold_left].
  - cbn. split; [exact I|]. split; [reflexivity|]. intros id' U; split; [exact U|tauto].
  - inversion ND as [|? ? Nt Nr]; subst.
    destruct (H t (or_introl eq_refl)) as [v [St [F M]]].
    pose proof (reload_one_ok f s k t t v I F M St St eq_refl) as [I1 [FO [NU [UU ID]]]]. cbn zeta in *.
    destruct (reload_one f (s, k) t) as [s1 k1] eqn:RO. cbn [fst] in *.
    assert (H1 : forall t2, In t2 r -> exists v2, sto t2 = Some v2 /\ find_task s1 (tid t2) = Some t2 /\ mem t2 = None).
    { intros t2 In2. destruct (H t2 (or_intror In2)) as [v2 [S2 [F2 M2]]]. exists v2. split; [exact S2|]. split; [|exact M2].
      rewrite FO; [exact F2|]. intros E. apply Nt. rewrite <- E. apply in_map; exact In2. }
    destruct (IH s1 k1 I1 Nr H1) as [I2 [ID2 U2]]. cbn zeta in *.
    split; [exact I2|]. split; [congruence|].
    intros id' U. destruct (U2 id' U) as [U1 NI]. split; [apply UU; exact U1|].
    cbn [map In]. intros [E|E]; [|tauto]. subst id'. apply NU; exact U1.
Qed.

Lemma NoDup_map_filter {A B} (f : A -> B) (p : A -> bool) l : NoDup (map f l) -> NoDup (map f (filter p l)).
Proof.
  induction l as [|x r IH]; cbn; [auto|]. intros H; inversion H as [|? ? Hn Hr]; subst.
  destruct (p x); cbn; [constructor|]; auto.
  intros Hin; apply Hn. apply in_map_iff in Hin; destruct Hin as [y [E Hy]].
  apply filter_In in Hy; destruct Hy as [Hy _]. apply in_map_iff; exists y; auto.
Qed.

Lemma ids_wipe l : map tid (map wipe l) = map tid l.
Proof. rewrite map_map. reflexivity. Qed.

Record Inv (s : st) : Prop := { inv_g : GInv s; inv_ids : NoDup (ids s); inv_loaded : forall id, ~ unloaded s id }.

Lemma restart_inv s0 f : NoDup (ids s0) -> Inv (fst (step s0 (Restart f))).
Proof.
  intros ND. cbn [step fst].
  destruct (crashed_props s0) as [I [TS UL]]. set (s := crashed s0) in *.
  assert (NDs : NoDup (ids s)) by (unfold ids; rewrite TS, ids_wipe; exact ND).
  set (stored := filter (fun t => match sto t with Some _ => true | None => false end) (ts s)).
  assert (H : forall t, In t stored -> exists v, sto t = Some v /\ find_task s (tid t) = Some t /\ mem t = None).
  { intros t Hin. apply filter_In in Hin. destruct Hin as [Hin Hs]. destruct (sto t) as [v|] eqn:St; [|discriminate].
    exists v. split; [reflexivity|]. pose proof (find_in_nodup s t NDs Hin) as F. split; [exact F|]. apply (UL (tid t) t F). }
  destruct (reload_fold f stored s 0%nat I (NoDup_map_filter tid _ (ts s) NDs) H) as [I2 [ID2 U2]]. cbn zeta in *.
  constructor; [exact I2|rewrite ID2; exact NDs|].
  intros id U. destruct (U2 id U) as [[t [F [M S]]] NI]. apply NI.
  assert (Hin : In t stored).
  { apply filter_In. split; [unfold find_task in F; apply find_some in F; tauto|]. destruct (sto t); [reflexivity|congruence]. }
  rewrite <- (find_task_tid s id t F). apply in_map; exact Hin.
Qed.

(* ids and loadedness through the API calls *)
Lemma unl_insert_fresh s id fresh id' : tid fresh = id -> mem fresh <> None -> unloaded (insert_fresh s id fresh) id' -> unloaded s id'.
Proof.
  intros T M [t [F [Mt St]]]. rewrite find_insert_fresh in F by exact T. destruct (String.eqb id' id).
  - injection F as <-. congruence.
  - exists t; auto.
Qed.
Lemma unl_ensure s tg id' : unloaded (ensure_ent s tg) id' -> unloaded s id'.
Proof. apply unl_same. intros i; apply find_ensure. Qed.
Lemma unl_g_add s id x id' : unloaded (g_add s id x) id' -> unloaded s id'.
Proof. apply unl_same. intros i; apply find_g_add. Qed.

Lemma NoDup_insert (l : list string) id : NoDup l -> NoDup (filter (fun y => negb (String.eqb y id)) l ++ [id])%list.
Proof.
  intros ND. induction l as [|x r IH]; cbn; [constructor; [tauto|constructor]|].
  inversion ND as [|? ? Nx Nr]; subst. destruct (String.eqb_spec x id) as [E|N]; cbn [negb]; [apply IH; exact Nr|].
  cbn. constructor; [|apply IH; exact Nr]. rewrite in_app_iff, filter_In. cbn. intros [[A _]|[A|[]]]; [tauto|congruence].
Qed.
Lemma ids_insert_fresh s id fresh : tid fresh = id ->
  ids (insert_fresh s id fresh) = (filter (fun y => negb (String.eqb y id)) (ids s) ++ [id])%list.
Proof.
  intros T. unfold ids, insert_fresh; cbn [ts]. rewrite map_app; cbn. rewrite T. f_equal.
  induction (ts s) as [|t r IH]; cbn; [reflexivity|]. destruct (String.eqb (tid t) id); cbn; [exact IH|f_equal; exact IH].
Qed.

Theorem step_inv s o : Inv s -> Inv (fst (step s o)).
Proof.
  intros [I ND AL]. destruct (is_restart o) eqn:R.
  - destruct o; try discriminate. apply restart_inv; exact ND.
  - constructor; [apply step_api_ginv; assumption| |].
    + destruct o as [id tg aoff f|id f|id f|id f|id f|f]; try discriminate; cbn [step].
      * rewrite <- (ids_ensure s tg) in ND. set (s1 := ensure_ent s tg) in *.
        destruct (in_mem s1 id); [exact ND|]. destruct (_ || _); [exact ND|].
        match goal with |- context [start ?a id false ?b ?c ?d] => change a with (g_add (insert_fresh s1 id {| tid := id; ttarget := tg; auto_off := aoff; mem := Some I0; sto := Some I0; started := 0; reg := 0 |}) id SInitial); set (r := start _ id false b c d) end.
        assert (E : ids (fst r) = (filter (fun y => negb (String.eqb y id)) (ids s1) ++ [id])%list).
        { unfold r. rewrite ids_start. unfold g_add. rewrite ids_g_set. apply ids_insert_fresh; reflexivity. }
        destruct r as [s2 ok]; cbn [fst] in *. destruct ok; cbn [fst]; [|rewrite ids_delete]; rewrite E; apply NoDup_insert; exact ND.
      * destruct (in_mem s id); [|exact ND]. set (s1 := match find_task s id with Some t => ensure_ent s (ttarget t) | None => s end).
        assert (E1 : ids s1 = ids s) by (unfold s1; destruct (find_task s id); [apply ids_ensure|reflexivity]).
        destruct (tstate_eqb _ SPaused); [cbn [fst]; rewrite E1; exact ND|].
        pose proof (ids_pause_with s1 id [SRunning] (fails f KTaskGet 1) (fails f KTaskPut 1)) as E. destruct (pause_with s1 id _ _ _) as [s2 ok]. cbn [fst] in *. congruence.
      * destruct (in_mem s id); [|exact ND]. set (s1 := match find_task s id with Some t => ensure_ent s (ttarget t) | None => s end).
        assert (E1 : ids s1 = ids s) by (unfold s1; destruct (find_task s id); [apply ids_ensure|reflexivity]).
        destruct (tstate_eqb _ SRunning); [cbn [fst]; rewrite E1; exact ND|].
        pose proof (ids_start s1 id false (fails f KPosGet 1) (fails f KTaskGet 1) (fails f KTaskPut 1)) as E. destruct (start s1 id _ _ _ _) as [s2 ok]. cbn [fst] in *. congruence.
      * destruct (in_mem s id); [|exact ND]. set (s1 := match find_task s id with Some t => ensure_ent s (ttarget t) | None => s end).
        assert (E1 : ids s1 = ids s) by (unfold s1; destruct (find_task s id); [apply ids_ensure|reflexivity]).
        pose proof (ids_delete s1 id (fails f KTaskGet 1) (fails f KCommit 1)) as E. destruct (delete s1 id _ _) as [s2 ok]. cbn [fst] in *. congruence.
      * destruct (fails f KTaskGet 1); [exact ND|]. destruct (find_task s id) as [t|]; [destruct (sto t)|]; exact ND.
    + intros id' U. destruct o as [id tg aoff f|id f|id f|id f|id f|f]; try discriminate; cbn [step] in U.
      * assert (AL1 : forall i, ~ unloaded (ensure_ent s tg) i) by (intros i H; apply unl_ensure in H; apply (AL i H)).
        set (s1 := ensure_ent s tg) in *.
        destruct (in_mem s1 id); [apply (AL1 id' U)|]. destruct (_ || _); [apply (AL1 id' U)|].
        match type of U with context [start ?a id false ?b ?c ?d] => change a with (g_add (insert_fresh s1 id {| tid := id; ttarget := tg; auto_off := aoff; mem := Some I0; sto := Some I0; started := 0; reg := 0 |}) id SInitial) in U; set (r := start _ id false b c d) in U end.
        assert (X : unloaded (fst r) id' -> False).
        { intros H. unfold r in H. apply unl_start, unl_g_add, unl_insert_fresh in H; [apply (AL1 id' H)|reflexivity|cbn; discriminate]. }
        destruct r as [s2 ok]; cbn [fst] in *. destruct ok; cbn [fst] in U; [|apply unl_delete in U]; apply X; exact U.
      * destruct (in_mem s id); [|apply (AL id' U)]. set (s1 := match find_task s id with Some t => ensure_ent s (ttarget t) | None => s end) in *.
        assert (AL1 : forall i, ~ unloaded s1 i) by (intros i H; unfold s1 in H; destruct (find_task s id); [apply unl_ensure in H|]; apply (AL i H)).
        destruct (tstate_eqb _ SPaused); [apply (AL1 id' U)|].
        pose proof (unl_pause_with s1 id [SRunning] (fails f KTaskGet 1) (fails f KTaskPut 1) id') as E. destruct (pause_with s1 id _ _ _) as [s2 ok]. cbn [fst] in *. apply (AL1 id'), E, U.
      * destruct (in_mem s id); [|apply (AL id' U)]. set (s1 := match find_task s id with Some t => ensure_ent s (ttarget t) | None => s end) in *.
        assert (AL1 : forall i, ~ unloaded s1 i) by (intros i H; unfold s1 in H; destruct (find_task s id); [apply unl_ensure in H|]; apply (AL i H)).
        destruct (tstate_eqb _ SRunning); [apply (AL1 id' U)|].
        pose proof (unl_start s1 id false (fails f KPosGet 1) (fails f KTaskGet 1) (fails f KTaskPut 1) id') as E. destruct (start s1 id _ _ _ _) as [s2 ok]. cbn [fst] in *. apply (AL1 id'), E, U.
      * destruct (in_mem s id); [|apply (AL id' U)]. set (s1 := match find_task s id with Some t => ensure_ent s (ttarget t) | None => s end) in *.
        assert (AL1 : forall i, ~ unloaded s1 i) by (intros i H; unfold s1 in H; destruct (find_task s id); [apply unl_ensure in H|]; apply (AL i H)).
        pose proof (unl_delete s1 id (fails f KTaskGet 1) (fails f KCommit 1) id') as E. destruct (delete s1 id _ _) as [s2 ok]. cbn [fst] in *. apply (AL1 id'), E, U.
      * destruct (fails f KTaskGet 1); [apply (AL id' U)|]. destruct (find_task s id) as [t|]; [destruct (sto t)|]; apply (AL id' U).
Qed.

(* ---------- every reachable state ---------- *)
Lemma init_inv : Inv init.
Proof.
  constructor; [exact init_ginv|constructor|]. intros id [t [F _]]. discriminate.
Qed.
Lemma run_app ops o : run (ops ++ [o]) = fst (step (run ops) o).
Proof. unfold run; rewrite fold_left_app; reflexivity. Qed.
Theorem run_inv ops : Inv (run ops).
Proof. induction ops as [|o r IH] using rev_ind; [exact init_inv|]. rewrite run_app. apply step_inv; exact IH. Qed.

(* the statements of Props.v *)
Theorem views_agree ops id t : find_task (run ops) id = Some t ->
  match mem t, sto t with
  | None, None => True
  | Some m, Some v => v_state m = v_state v /\ v_state v <> SInitial
  | _, _ => False
  end.
Proof.
  intros F. destruct (run_inv ops) as [I _ AL]. destruct (gi_task _ I id) as [_ TK]. rewrite F in TK.
  destruct TK as [_ [Gd _]]. unfold good_task in Gd.
  destruct (mem t) as [m|] eqn:M, (sto t) as [v|] eqn:S; try tauto.
  exfalso. apply (AL id). exists t. rewrite M, S. repeat split; [exact F|discriminate].
Qed.

Theorem gauges_agree ops :
  let s := run ops in
  gi s = [] /\ NoDup (gr s) /\ NoDup (gp s)
  /\ (forall id, In id (gr s) <-> exists t, find_task s id = Some t /\ runningb t = true)
  /\ (forall id, In id (gp s) <-> exists t, find_task s id = Some t /\ pausedb t = true).
Proof.
  cbn zeta. destruct (run_inv ops) as [I _ AL]. set (s := run ops) in *.
  assert (LD : forall id t, find_task s id = Some t -> sto t <> None -> loadedb t = true).
  { intros id t F S. unfold loadedb. destruct (mem t) eqn:M; [reflexivity|]. exfalso. apply (AL id). exists t; auto. }
  split. { destruct (gi s) as [|x r] eqn:E; [reflexivity|]. exfalso. destruct (gi_task s I x) as [N _]. apply N. rewrite E; left; reflexivity. }
  destruct (gi_g s I) as [_ [N1 N2]]. split; [exact N1|]. split; [exact N2|]. split; intros id.
  - destruct (gi_task s I id) as [_ TK]. destruct (find_task s id) as [t|] eqn:F.
    + destruct TK as [_ [_ [Rr _]]]. rewrite Rr. unfold activeb. split.
      * intros H. apply andb_prop in H. exists t; tauto.
      * intros [t' [E R]]. injection E as <-. rewrite R, andb_true_r. apply (LD id t F). unfold runningb in R. destruct (sto t); [discriminate|discriminate].
    + destruct TK as [N _]. split; [tauto|]. intros [t' [E _]]; discriminate.
  - destruct (gi_task s I id) as [_ TK]. destruct (find_task s id) as [t|] eqn:F.
    + destruct TK as [_ [_ [_ [Pp _]]]]. rewrite Pp. unfold lpausedb. split.
      * intros H. apply andb_prop in H. exists t; tauto.
      * intros [t' [E R]]. injection E as <-. rewrite R, andb_true_r. apply (LD id t F). unfold pausedb in R. destruct (sto t); [discriminate|discriminate].
    + destruct TK as [_ [N _]]. split; [tauto|]. intros [t' [E _]]; discriminate.
Qed.

Theorem cleanup ops :
  let s := run ops in
  (forall id t, find_task s id = Some t ->
     if runningb t then started t = 1%Z /\ reg t = 1%Z /\ in_quit s (ttarget t) id
     else started t = 0%Z /\ reg t = 0%Z /\ forall tg, ~ in_quit s tg id)
  /\ (forall tg e, alookup (ents s) tg = Some e ->
        NoDup (quit e) /\ refcnt e = Z.of_nat (List.length (quit e))
        /\ forall id, In id (quit e) <-> exists t, find_task s id = Some t /\ ttarget t = tg /\ runningb t = true).
Proof.
  cbn zeta. destruct (run_inv ops) as [I _ AL]. set (s := run ops) in *. split.
  - intros id t F. destruct (gi_task s I id) as [_ TK]. rewrite F in TK. destruct TK as [T [Gd [_ [_ [Q _]]]]].
    unfold good_task in Gd. unfold runningb.
    destruct (mem t) as [m|] eqn:M.
    + destruct (sto t) as [v|] eqn:S; [|tauto]. destruct Gd as [_ [NI [GR GP]]].
      assert (AB : activeb t = tstate_eqb (v_state v) SRunning) by (unfold activeb, loadedb, runningb; rewrite M, S; reflexivity).
      destruct (tstate_eqb_spec (v_state v) SRunning) as [VR|VR].
      * destruct (GR VR) as [A B]. split; [exact A|]. split; [exact B|]. apply Q. rewrite AB. auto.
      * assert (VP : v_state v = SPaused) by (destruct (v_state v); congruence). destruct (GP VP) as [A B].
        split; [exact A|]. split; [exact B|]. intros tg H. apply Q in H. rewrite AB in H. destruct H; discriminate.
    + destruct (sto t) as [v|] eqn:S.
      * exfalso. apply (AL id). exists t. rewrite M, S. repeat split; [exact F|discriminate].
      * destruct Gd as [A B]. split; [exact A|]. split; [exact B|]. intros tg H. apply Q in H.
        unfold activeb, loadedb in H. rewrite M in H. destruct H; discriminate.
  - intros tg e A. destruct (gi_ent s I tg e A) as [ND RC]. split; [exact ND|]. split; [exact RC|].
    intros id. destruct (gi_task s I id) as [_ TK]. destruct (find_task s id) as [t|] eqn:F.
    + destruct TK as [_ [_ [_ [_ [Q _]]]]]. split.
      * intros B. assert (IQ : in_quit s tg id) by (exists e; split; assumption). apply Q in IQ. destruct IQ as [TG AC].
        exists t. split; [reflexivity|]. split; [exact TG|]. unfold activeb in AC. apply andb_prop in AC; tauto.
      * intros [t' [E [TG R]]]. injection E as <-.
        assert (AC : activeb t = true).
        { unfold activeb. rewrite R, andb_true_r. unfold loadedb. destruct (mem t) eqn:M; [reflexivity|].
          exfalso. apply (AL id). exists t. repeat split; [exact F|exact M|]. unfold runningb in R. destruct (sto t); [discriminate|discriminate]. }
        destruct (proj2 (Q tg) (conj TG AC)) as [e' [A' B']]. rewrite A in A'; injection A' as <-. exact B'.
    + destruct TK as [_ [_ NQ]]. split; [intros B; exfalso; apply (NQ tg); exists e; split; assumption|].
      intros [t' [E _]]; discriminate.
Qed.
