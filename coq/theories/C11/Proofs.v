(* C11 — proofs: an invariant of every reachable state of the lifecycle model *)
From Coq Require Import List String NArith ZArith Bool Lia.
From Verif Require Import Base.Util C11.Model.
Import ListNotations.
Local Open Scope string_scope.

(* ---------- basic facts about the state transformers ---------- *)
Lemma tstate_eqb_spec a b : reflect (a = b) (tstate_eqb a b).
Proof. destruct a, b; cbn; constructor; congruence. Qed.

Lemma mem_str_In x l : mem_str x l = true <-> In x l.
Proof.
  unfold mem_str; rewrite existsb_exists; split.
  - intros [y [Hy E]]. apply String.eqb_eq in E; subst; exact Hy.
  - intros H; exists x; split; [exact H|apply String.eqb_refl].
Qed.
Lemma mem_str_false x l : mem_str x l = false <-> ~ In x l.
Proof. rewrite <- mem_str_In. destruct (mem_str x l); split; congruence. Qed.

Lemma In_rm x y l : In x (rm y l) <-> In x l /\ x <> y.
Proof.
  unfold rm; rewrite filter_In. split; intros [A B]; split; try exact A.
  - apply negb_true_iff in B. destruct (String.eqb_spec y x); congruence.
  - apply negb_true_iff. destruct (String.eqb_spec y x); congruence.
Qed.
Lemma In_add x y l : In x (add y l) <-> In x l \/ x = y.
Proof.
  unfold add. destruct (mem_str y l) eqn:M.
  - apply mem_str_In in M. split; [tauto|intros [H|->]; assumption].
  - rewrite in_app_iff; cbn. intuition.
Qed.
Lemma NoDup_rm y l : NoDup l -> NoDup (rm y l).
Proof. unfold rm; apply NoDup_filter. Qed.
Lemma NoDup_add y l : NoDup l -> NoDup (add y l).
Proof.
  unfold add; intros H. destruct (mem_str y l) eqn:M; [exact H|].
  apply mem_str_false in M. induction l as [|z r IH]; cbn; [constructor; [tauto|constructor]|].
  inversion H as [|? ? Hz Hr]; subst. constructor.
  - rewrite in_app_iff; cbn. intros [A|[A|[]]]; [tauto|]. apply M; left; congruence.
  - apply IH; [exact Hr|]. intros A; apply M; right; exact A.
Qed.
Lemma length_rm_in y l : NoDup l -> In y l -> Z.of_nat (List.length (rm y l)) = (Z.of_nat (List.length l) - 1)%Z.
Proof.
  unfold rm. induction l as [|z r IH]; cbn; intros H Hin; [tauto|].
  inversion H as [|? ? Hz Hr]; subst.
  destruct (String.eqb_spec y z) as [->|N]; cbn.
  - assert (E : filter (fun y => negb (String.eqb z y)) r = r).
    { clear IH H Hr Hin. induction r as [|w r IH]; cbn; [reflexivity|].
      destruct (String.eqb_spec z w) as [->|N]; [exfalso; apply Hz; left; reflexivity|].
      cbn. f_equal. apply IH. intros A; apply Hz; right; exact A. }
    rewrite E. lia.
  - destruct Hin as [E|Hin]; [congruence|]. rewrite Nat2Z.inj_succ, IH by assumption. lia.
Qed.
Lemma length_add_new y l : ~ In y l -> Z.of_nat (List.length (add y l)) = (Z.of_nat (List.length l) + 1)%Z.
Proof.
  intros H. unfold add. apply mem_str_false in H. rewrite H, app_length; cbn. lia.
Qed.

(* association lists *)
Lemma alookup_aupsert_same {A} (l : list (string * A)) k (v : A) : alookup (aupsert l k v) k = Some v.
Proof.
  induction l as [|[a b] r IH]; cbn; [rewrite String.eqb_refl; reflexivity|].
  destruct (String.eqb_spec k a); cbn.
  - rewrite String.eqb_refl; reflexivity.
  - destruct (String.eqb_spec k a); [congruence|exact IH].
Qed.
Lemma alookup_aupsert_other {A} (l : list (string * A)) k k' (v : A) : k <> k' -> alookup (aupsert l k v) k' = alookup l k'.
Proof.
  intros Hk; induction l as [|[a b] r IH]; cbn.
  - destruct (String.eqb_spec k' k); congruence.
  - destruct (String.eqb_spec k a); cbn.
    + subst a. destruct (String.eqb_spec k' k); congruence.
    + destruct (String.eqb_spec k' a); [reflexivity|exact IH].
Qed.
Lemma alookup_aremove_same {A} (l : list (string * A)) k : alookup (aremove l k) k = None.
Proof.
  induction l as [|[a b] r IH]; cbn; [reflexivity|].
  destruct (String.eqb_spec k a); [exact IH|]. cbn. destruct (String.eqb_spec k a); [congruence|exact IH].
Qed.
Lemma alookup_aremove_other {A} (l : list (string * A)) k k' : k <> k' -> alookup (aremove l k) k' = alookup l k'.
Proof.
  intros Hk; induction l as [|[a b] r IH]; cbn; [reflexivity|].
  destruct (String.eqb_spec k a); cbn.
  - subst a. destruct (String.eqb_spec k' k); [congruence|exact IH].
  - destruct (String.eqb_spec k' a); [reflexivity|exact IH].
Qed.

(* find_task through the transformers *)
Lemma find_upd s id g id' : (forall t, tid (g t) = tid t) ->
  find_task (upd s id g) id' = if String.eqb id id' then option_map g (find_task s id') else find_task s id'.
Proof.
  intros Hg. unfold find_task, upd; cbn. induction (ts s) as [|t r IH]; cbn; [destruct (String.eqb id id'); reflexivity|].
  destruct (String.eqb_spec (tid t) id) as [E|N].
  - rewrite Hg, E. destruct (String.eqb_spec id id') as [->|N'].
    + rewrite String.eqb_refl; reflexivity.
    + destruct (String.eqb_spec id id'); [congruence|]. rewrite IH. destruct (String.eqb_spec id id'); [congruence|reflexivity].
  - destruct (String.eqb_spec (tid t) id') as [E'|N'].
    + destruct (String.eqb_spec id id'); [congruence|reflexivity].
    + exact IH.
Qed.
