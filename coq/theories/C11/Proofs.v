(* C11 — proofs: an invariant of every reachable state of the lifecycle model *)
From Coq Require Import List String NArith ZArith Bool Lia.
From Verif Require Import Base.Util C11.Model.
Import ListNotations.
Local Open Scope string_scope.

(* ---------- basic facts about the state transformers ---------- *)
Lemma tstate_eqb_spec a b : reflect (a = b) (tstate_eqb a b).
Proof. destruct a, b; cbn; constructor; congruence. Qed.

Lemma mem_str_In x l : mem_str x l = true <-> In x l.
Proof.
  unfold mem_str; rewrite existsb_exists; split.
  - intros [y [Hy E]]. apply String.eqb_eq in E; subst; exact Hy.
  - intros H; exists x; split; [exact H|apply String.eqb_refl].
Qed.
Lemma mem_str_false x l : mem_str x l = false <-> ~ In x l.
Proof. rewrite <- mem_str_In. destruct (mem_str x l); split; congruence. Qed.

Lemma In_rm x y l : In x (rm y l) <-> In x l /\ x <> y.
Proof.
  unfold rm; rewrite filter_In. split; intros [A B]; split; try exact A.
  - apply negb_true_iff in B. destruct (String.eqb_spec y x); congruence.
  - apply negb_true_iff. destruct (String.eqb_spec y x); congruence.
Qed.
Lemma In_add x y l : In x (add y l) <-> In x l \/ x = y.
Proof.
  unfold add. destruct (mem_str y l) eqn:M.
  - apply mem_str_In in M. split; [tauto|]. intros [H|E]; [exact H|subst; exact M].
  - rewrite in_app_iff; cbn. intuition.
Qed.
Lemma NoDup_rm y l : NoDup l -> NoDup (rm y l).
Proof. unfold rm; apply NoDup_filter. Qed.
Lemma NoDup_add y l : NoDup l -> NoDup (add y l).
Proof.
  unfold add; intros H. destruct (mem_str y l) eqn:M; [exact H|].
  apply mem_str_false in M. induction l as [|z r IH]; cbn; [constructor; [tauto|constructor]|].
  inversion H as [|? ? Hz Hr]; subst. constructor.
  - rewrite in_app_iff; cbn. intros [A|[A|[]]]; [tauto|]. apply M; left; congruence.
  - apply IH; [exact Hr|]. intros A; apply M; right; exact A.
Qed.
Lemma rm_notin y l : ~ In y l -> rm y l = l.
Proof.
  unfold rm. induction l as [|w r IH]; cbn [filter]; intros H; [reflexivity|].
  destruct (String.eqb_spec y w) as [->|N]; [exfalso; apply H; left; reflexivity|].
  cbn [negb]. f_equal. apply IH. intros A; apply H; right; exact A.
Qed.
Lemma length_rm_in y l : NoDup l -> In y l -> S (List.length (rm y l)) = List.length l.
Proof.
  induction l as [|z r IH]; intros H Hin; [destruct Hin|].
  inversion H as [|? ? Hz Hr]; subst. unfold rm in *. cbn [filter].
  destruct (String.eqb_spec y z) as [->|N]; cbn [negb List.length].
  - fold (rm z r). rewrite (rm_notin z r Hz). reflexivity.
  - destruct Hin as [E|Hin]; [congruence|]. f_equal. apply IH; assumption.
Qed.
Lemma length_add_new y l : ~ In y l -> List.length (add y l) = S (List.length l).
Proof.
  intros H. unfold add. apply mem_str_false in H. rewrite H, app_length. cbn [List.length]. lia.
Qed.

(* association lists *)
Lemma alookup_aupsert_same {A} (l : list (string * A)) k (v : A) : alookup (aupsert l k v) k = Some v.
Proof.
  induction l as [|[a b] r IH]; cbn; [rewrite String.eqb_refl; reflexivity|].
  destruct (String.eqb_spec k a); cbn.
  - rewrite String.eqb_refl; reflexivity.
  - destruct (String.eqb_spec k a); [congruence|exact IH].
Qed.
Lemma alookup_aupsert_other {A} (l : list (string * A)) k k' (v : A) : k <> k' -> alookup (aupsert l k v) k' = alookup l k'.
Proof.
  intros Hk; induction l as [|[a b] r IH]; cbn.
  - destruct (String.eqb_spec k' k); congruence.
  - destruct (String.eqb_spec k a); cbn.
    + subst a. destruct (String.eqb_spec k' k); congruence.
    + destruct (String.eqb_spec k' a); [reflexivity|exact IH].
Qed.
Lemma alookup_aremove_same {A} (l : list (string * A)) k : alookup (aremove l k) k = None.
Proof.
  induction l as [|[a b] r IH]; cbn; [reflexivity|].
  destruct (String.eqb_spec k a); [exact IH|]. cbn. destruct (String.eqb_spec k a); [congruence|exact IH].
Qed.
Lemma alookup_aremove_other {A} (l : list (string * A)) k k' : k <> k' -> alookup (aremove l k) k' = alookup l k'.
Proof.
  intros Hk; induction l as [|[a b] r IH]; cbn; [reflexivity|].
  destruct (String.eqb_spec k a); cbn.
  - subst a. destruct (String.eqb_spec k' k); [congruence|exact IH].
  - destruct (String.eqb_spec k' a); [reflexivity|exact IH].
Qed.

(* find_task through the transformers *)
Lemma find_upd s id g id' : (forall t, tid (g t) = tid t) ->
  find_task (upd s id g) id' = if String.eqb id id' then option_map g (find_task s id') else find_task s id'.
Proof.
  intros Hg. unfold find_task, upd; cbn [ts].
  induction (ts s) as [|t r IH]; cbn [map find].
  - destruct (String.eqb id id'); reflexivity.
  - destruct (String.eqb_spec (tid t) id) as [E|N].
    + rewrite Hg. destruct (String.eqb_spec (tid t) id') as [E'|N'].
      * replace id' with id by congruence. rewrite String.eqb_refl. reflexivity.
      * exact IH.
    + destruct (String.eqb_spec (tid t) id') as [E'|N'].
      * destruct (String.eqb_spec id id'); [congruence|reflexivity].
      * exact IH.
Qed.

(* projections through the gauge / entity setters *)
Lemma ts_set_g s i r p : ts (set_g s i r p) = ts s. Proof. reflexivity. Qed.
Lemma ts_g_set s x l : ts (g_set s x l) = ts s. Proof. destruct x; reflexivity. Qed.
Lemma ents_g_set s x l : ents (g_set s x l) = ents s. Proof. destruct x; reflexivity. Qed.
Lemma find_g_set s x l id : find_task (g_set s x l) id = find_task s id.
Proof. unfold find_task; rewrite ts_g_set; reflexivity. Qed.
Lemma find_g_add s id x id' : find_task (g_add s id x) id' = find_task s id'.
Proof. apply find_g_set. Qed.
Lemma find_g_delete s id x id' : find_task (g_delete s id x) id' = find_task s id'.
Proof. apply find_g_set. Qed.
Lemma find_g_update s id n o id' : find_task (g_update s id n o) id' = find_task s id'.
Proof. unfold g_update. destruct (mem_str id (g_get s o)); [|reflexivity]. rewrite find_g_add, find_g_delete; reflexivity. Qed.
Lemma ents_g_add s id x : ents (g_add s id x) = ents s. Proof. apply ents_g_set. Qed.
Lemma ents_g_delete s id x : ents (g_delete s id x) = ents s. Proof. apply ents_g_set. Qed.
Lemma ents_g_update s id n o : ents (g_update s id n o) = ents s.
Proof. unfold g_update. destruct (mem_str id (g_get s o)); [|reflexivity]. rewrite ents_g_add, ents_g_delete; reflexivity. Qed.
Lemma find_set_ents s e id : find_task (set_ents s e) id = find_task s id. Proof. reflexivity. Qed.
Lemma ents_upd s id g : ents (upd s id g) = ents s. Proof. reflexivity. Qed.
Lemma g_get_upd s id g x : g_get (upd s id g) x = g_get s x. Proof. destruct x; reflexivity. Qed.
Lemma g_get_set_ents s e x : g_get (set_ents s e) x = g_get s x. Proof. destruct x; reflexivity. Qed.
Lemma g_get_g_set s x l y : g_get (g_set s x l) y = if tstate_eqb x y then l else g_get s y.
Proof. destruct x, y; reflexivity. Qed.

Definition runningb (t : trec) : bool := match sto t with Some v => tstate_eqb (v_state v) SRunning | None => false end.
Definition pausedb (t : trec) : bool := match sto t with Some v => tstate_eqb (v_state v) SPaused | None => false end.
Definition loadedb (t : trec) : bool := match mem t with Some _ => true | None => false end.
Definition activeb (t : trec) : bool := loadedb t && runningb t.
Definition lpausedb (t : trec) : bool := loadedb t && pausedb t.

(* a task record: absent; stored but not loaded (only while a reload is in progress); or loaded with
   memory = store, running with its readers or paused without *)
Definition good_task (t : trec) : Prop :=
  match mem t, sto t with
  | None, _ => started t = 0%Z /\ reg t = 0%Z
  | Some m, Some v =>
      v_state m = v_state v /\ v_state v <> SInitial
      /\ (v_state v = SRunning -> started t = 1%Z /\ reg t = 1%Z)
      /\ (v_state v = SPaused -> started t = 0%Z /\ reg t = 0%Z /\ v_reason v = true /\ v_reason m = true)
  | Some _, None => False
  end.

(* everything the invariant says about one task id *)
Definition in_quit (s : st) (tg id : string) : Prop := exists e, alookup (ents s) tg = Some e /\ In id (quit e).
Definition task_ok (s : st) (id : string) : Prop :=
  ~ In id (gi s)
  /\ match find_task s id with
     | None => ~ In id (gr s) /\ ~ In id (gp s) /\ forall tg, ~ in_quit s tg id
     | Some t =>
         tid t = id /\ good_task t
         /\ (In id (gr s) <-> activeb t = true) /\ (In id (gp s) <-> lpausedb t = true)
         /\ (forall tg, in_quit s tg id <-> (ttarget t = tg /\ activeb t = true))
         /\ (activeb t = true -> alookup (ents s) (ttarget t) <> None)
     end.
Definition ent_ok (s : st) : Prop :=
  forall tg e, alookup (ents s) tg = Some e -> NoDup (quit e) /\ refcnt e = Z.of_nat (List.length (quit e)).
Definition g_ok (s : st) : Prop := NoDup (gi s) /\ NoDup (gr s) /\ NoDup (gp s).
Record GInv (s : st) : Prop := { gi_task : forall id, task_ok s id; gi_ent : ent_ok s; gi_g : g_ok s }.

Lemma find_task_tid s id t : find_task s id = Some t -> tid t = id.
Proof. unfold find_task; intros H. apply find_some in H. destruct H as [_ E]. apply String.eqb_eq in E; exact E. Qed.

Lemma init_ginv : GInv init.
Proof.
  constructor.
  - intros id. unfold task_ok; cbn. repeat split; try tauto. intros tg [e [H _]]; discriminate.
  - intros tg e H; discriminate.
  - repeat split; constructor.
Qed.

(* ---------- frame: what a transformer must leave alone for task_ok of another id to survive ---------- *)
Definition ents_frame (s s' : st) (id' : string) : Prop :=
  (forall tg e', alookup (ents s') tg = Some e' ->
     (exists e, alookup (ents s) tg = Some e /\ (In id' (quit e') <-> In id' (quit e)))
     \/ (alookup (ents s) tg = None /\ ~ In id' (quit e')))
  /\ (forall tg e, alookup (ents s) tg = Some e -> In id' (quit e) -> alookup (ents s') tg <> None).

Lemma in_quit_frame s s' id' tg : ents_frame s s' id' -> (in_quit s' tg id' <-> in_quit s tg id').
Proof.
  intros [F1 F2]. split.
  - intros [e' [A B]]. destruct (F1 tg e' A) as [[e [A' E]]|[_ N]]; [|tauto]. exists e; split; [exact A'|apply E; exact B].
  - intros [e [A B]]. pose proof (F2 tg e A B) as N. destruct (alookup (ents s') tg) as [e'|] eqn:A'; [|congruence].
    exists e'; split; [exact A'|]. destruct (F1 tg e' A') as [[e0 [A0 E]]|[A0 _]]; [|congruence].
    rewrite A in A0; injection A0 as <-. apply E; exact B.
Qed.

Record frame (s s' : st) (id' : string) : Prop := {
  f_find : find_task s' id' = find_task s id';
  f_g : forall x, In id' (g_get s' x) <-> In id' (g_get s x);
  f_e : ents_frame s s' id';
}.

Lemma task_ok_frame s s' id' : frame s s' id' -> task_ok s id' -> task_ok s' id'.
Proof.
  intros [Hf Hg He] [Hi Ht]. unfold task_ok. rewrite Hf.
  pose proof (Hg SInitial) as G1; pose proof (Hg SRunning) as G2; pose proof (Hg SPaused) as G3; cbn in G1, G2, G3.
  split; [rewrite G1; exact Hi|].
  destruct (find_task s id') as [t|].
  - destruct Ht as [T [Gd [R [P [Q E]]]]].
    split; [exact T|]. split; [exact Gd|]. split; [rewrite G2; exact R|]. split; [rewrite G3; exact P|]. split.
    + intros tg. rewrite (in_quit_frame s s' id' tg He). apply Q.
    + intros A. pose proof (proj2 (Q (ttarget t)) (conj eq_refl A)) as [e [Ae Be]].
      apply (proj2 He (ttarget t) e Ae Be).
  - destruct Ht as [R [P Q]]. rewrite G2, G3. split; [exact R|]. split; [exact P|].
    intros tg X. apply (in_quit_frame s s' id' tg He) in X. apply (Q tg X).
Qed.

Lemma ents_frame_same s s' id' : ents s' = ents s -> ents_frame s s' id'.
Proof.
  intros E. unfold ents_frame. rewrite E. split.
  - intros tg e' H; left; exists e'; split; [exact H|tauto].
  - intros tg e H _; congruence.
Qed.

Lemma frame_refl s id' : frame s s id'.
Proof. constructor; [reflexivity|tauto|apply ents_frame_same; reflexivity]. Qed.

Lemma frame_trans s1 s2 s3 id' : frame s1 s2 id' -> frame s2 s3 id' -> frame s1 s3 id'.
Proof.
  intros [F1 G1 [E1a E1b]] [F2 G2 [E2a E2b]]. constructor.
  - congruence.
  - intros x. rewrite G2. apply G1.
  - split.
    + intros tg e3 A3. destruct (E2a tg e3 A3) as [[e2 [A2 I2]]|[A2 N3]].
      * destruct (E1a tg e2 A2) as [[e1 [A1 I1]]|[A1 N2]].
        -- left; exists e1; split; [exact A1|]. rewrite I2; exact I1.
        -- right; split; [exact A1|]. rewrite I2; exact N2.
      * destruct (alookup (ents s1) tg) as [e1|] eqn:A1; [|right; split; [reflexivity|exact N3]].
        left; exists e1; split; [reflexivity|]. split; [tauto|]. intros B1. exfalso. apply (E1b tg e1 A1 B1). exact A2.
    + intros tg e1 A1 B1. pose proof (E1b tg e1 A1 B1) as N2.
      destruct (alookup (ents s2) tg) as [e2|] eqn:A2; [|congruence].
      destruct (E1a tg e2 A2) as [[e1' [A1' I]]|[A1' _]]; [|congruence].
      rewrite A1 in A1'; injection A1' as <-. apply (E2b tg e2 A2). apply I; exact B1.
Qed.

(* primitives *)
Lemma frame_upd s id g id' : (forall t, tid (g t) = tid t) -> id' <> id -> frame s (upd s id g) id'.
Proof.
  intros Hg N. constructor.
  - rewrite find_upd by exact Hg. destruct (String.eqb_spec id id'); [congruence|reflexivity].
  - intros x; rewrite g_get_upd; tauto.
  - apply ents_frame_same; reflexivity.
Qed.

Lemma frame_upsert s tg e e1 id' : alookup (ents s) tg = Some e -> (In id' (quit e1) <-> In id' (quit e)) ->
  frame s (set_ents s (aupsert (ents s) tg e1)) id'.
Proof.
  intros A I. constructor; [reflexivity|intros x; rewrite g_get_set_ents; tauto|]. split; cbn [set_ents ents].
  - intros tg' e' H. destruct (String.eqb_spec tg tg') as [<-|N].
    + rewrite alookup_aupsert_same in H; injection H as <-. left; exists e; split; assumption.
    + rewrite alookup_aupsert_other in H by exact N. left; exists e'; split; [exact H|tauto].
  - intros tg' e0 H _. destruct (String.eqb_spec tg tg') as [<-|N].
    + rewrite alookup_aupsert_same; discriminate.
    + rewrite alookup_aupsert_other by exact N; congruence.
Qed.

Lemma frame_insert s tg e1 id' : alookup (ents s) tg = None -> ~ In id' (quit e1) ->
  frame s (set_ents s (aupsert (ents s) tg e1)) id'.
Proof.
  intros A I. constructor; [reflexivity|intros x; rewrite g_get_set_ents; tauto|]. split; cbn [set_ents ents].
  - intros tg' e' H. destruct (String.eqb_spec tg tg') as [<-|N].
    + rewrite alookup_aupsert_same in H; injection H as <-. right; split; assumption.
    + rewrite alookup_aupsert_other in H by exact N. left; exists e'; split; [exact H|tauto].
  - intros tg' e0 H _. destruct (String.eqb_spec tg tg') as [<-|N]; [congruence|].
    rewrite alookup_aupsert_other by exact N; congruence.
Qed.

Lemma frame_remove s tg e id' : alookup (ents s) tg = Some e -> ~ In id' (quit e) ->
  frame s (set_ents s (aremove (ents s) tg)) id'.
Proof.
  intros A I. constructor; [reflexivity|intros x; rewrite g_get_set_ents; tauto|]. split; cbn [set_ents ents].
  - intros tg' e' H. destruct (String.eqb_spec tg tg') as [<-|N].
    + rewrite alookup_aremove_same in H; discriminate.
    + rewrite alookup_aremove_other in H by exact N. left; exists e'; split; [exact H|tauto].
  - intros tg' e0 H B. destruct (String.eqb_spec tg tg') as [<-|N].
    + rewrite A in H; injection H as <-; tauto.
    + rewrite alookup_aremove_other by exact N; congruence.
Qed.

Lemma frame_g_set s x l id' : (In id' l <-> In id' (g_get s x)) -> frame s (g_set s x l) id'.
Proof.
  intros I. constructor; [apply find_g_set| |apply ents_frame_same; apply ents_g_set].
  intros y. rewrite g_get_g_set. destruct (tstate_eqb_spec x y) as [<-|N]; [exact I|tauto].
Qed.
Lemma frame_g_add s id x id' : id' <> id -> frame s (g_add s id x) id'.
Proof. intros N. apply frame_g_set. rewrite In_add. intuition congruence. Qed.
Lemma frame_g_delete s id x id' : id' <> id -> frame s (g_delete s id x) id'.
Proof. intros N. apply frame_g_set. rewrite In_rm. intuition congruence. Qed.
Lemma frame_g_update s id n o id' : id' <> id -> frame s (g_update s id n o) id'.
Proof.
  intros N. unfold g_update. destruct (mem_str id (g_get s o)); [|apply frame_refl].
  eapply frame_trans; [apply frame_g_delete; exact N|apply frame_g_add; exact N].
Qed.

(* ---------- release ---------- *)
Lemma two_distinct (l : list string) a b : NoDup l -> In a l -> In b l -> a <> b -> (List.length l >= 2)%nat.
Proof.
  intros N A B D. destruct l as [|x [|y r]]; cbn in *; try tauto; try lia.
  destruct A as [<-|[]], B as [<-|[]]; congruence.
Qed.

Definition reset_counters (t : trec) : trec :=
  {| tid := tid t; ttarget := ttarget t; auto_off := auto_off t; mem := mem t; sto := sto t; started := 0; reg := (reg t - 1)%Z |}.

Lemma release_unfold s id tg :
  release s id tg =
  match alookup (ents s) tg with
  | None => s
  | Some e =>
      if mem_str id (quit e)
      then let s1 := upd s id reset_counters in
           let e1 := {| refcnt := (refcnt e - 1)%Z; quit := rm id (quit e) |} in
           if (refcnt e1 =? 0)%Z then set_ents s1 (aremove (ents s1) tg) else set_ents s1 (aupsert (ents s1) tg e1)
      else if (refcnt e =? 0)%Z then set_ents s (aremove (ents s) tg) else set_ents s (aupsert (ents s) tg e)
  end.
Proof.
  unfold release. destruct (alookup (ents s) tg) as [e|]; [|reflexivity].
  destruct (mem_str id (quit e)); reflexivity.
Qed.

Lemma frame_release s id tg id' : ent_ok s -> id' <> id -> frame s (release s id tg) id'.
Proof.
  intros EO N. rewrite release_unfold. destruct (alookup (ents s) tg) as [e|] eqn:A; [|apply frame_refl].
  destruct (EO tg e A) as [ND RC].
  destruct (mem_str id (quit e)) eqn:M; cbn zeta.
  - apply mem_str_In in M.
    eapply frame_trans; [apply (frame_upd s id reset_counters id'); [reflexivity|exact N]|].
    cbn [refcnt quit]. destruct (Z.eqb_spec (refcnt e - 1) 0) as [Z0|Z0].
    + apply (frame_remove _ tg e); [exact A|]. intros B.
      pose proof (two_distinct _ _ _ ND M B (fun E => N (eq_sym E))). lia.
    + apply (frame_upsert _ tg e); [exact A|]. cbn. rewrite In_rm. intuition congruence.
  - destruct (Z.eqb_spec (refcnt e) 0) as [Z0|Z0].
    + apply (frame_remove _ tg e); [exact A|]. intros B. destruct (quit e); [tauto|cbn in RC; lia].
    + apply (frame_upsert _ tg e); [exact A|tauto].
Qed.

Lemma ent_ok_upsert s tg e1 : ent_ok s -> NoDup (quit e1) -> refcnt e1 = Z.of_nat (List.length (quit e1)) ->
  ent_ok (set_ents s (aupsert (ents s) tg e1)).
Proof.
  intros EO A B tg' e H. cbn [set_ents ents] in H. destruct (String.eqb_spec tg tg') as [<-|N].
  - rewrite alookup_aupsert_same in H; injection H as <-; split; assumption.
  - rewrite alookup_aupsert_other in H by exact N. apply (EO tg' e H).
Qed.
Lemma ent_ok_remove s tg : ent_ok s -> ent_ok (set_ents s (aremove (ents s) tg)).
Proof.
  intros EO tg' e H. cbn [set_ents ents] in H. destruct (String.eqb_spec tg tg') as [<-|N].
  - rewrite alookup_aremove_same in H; discriminate.
  - rewrite alookup_aremove_other in H by exact N. apply (EO tg' e H).
Qed.
Lemma ent_ok_same s s' : ents s' = ents s -> ent_ok s -> ent_ok s'.
Proof. intros E EO tg e H. rewrite E in H. apply (EO tg e H). Qed.

Lemma ent_ok_release s id tg : ent_ok s -> ent_ok (release s id tg).
Proof.
  intros EO. rewrite release_unfold. destruct (alookup (ents s) tg) as [e|] eqn:A; [|exact EO].
  destruct (EO tg e A) as [ND RC].
  assert (EO1 : ent_ok (upd s id reset_counters)) by (apply (ent_ok_same s); [reflexivity|exact EO]).
  destruct (mem_str id (quit e)) eqn:M; cbn zeta.
  - apply mem_str_In in M. cbn [refcnt quit]. destruct (Z.eqb_spec (refcnt e - 1) 0).
    + apply ent_ok_remove; exact EO1.
    + apply ent_ok_upsert; [exact EO1|apply NoDup_rm; exact ND|]. cbn.
      pose proof (length_rm_in id (quit e) ND M). lia.
  - destruct (Z.eqb_spec (refcnt e) 0); [apply ent_ok_remove; exact EO|apply ent_ok_upsert; assumption].
Qed.

Lemma g_get_release s id tg x : g_get (release s id tg) x = g_get s x.
Proof.
  rewrite release_unfold. destruct (alookup (ents s) tg) as [e|]; [|reflexivity].
  destruct (mem_str id (quit e)); cbn zeta.
  - destruct (_ =? 0)%Z; rewrite g_get_set_ents, g_get_upd; reflexivity.
  - destruct (_ =? 0)%Z; rewrite g_get_set_ents; reflexivity.
Qed.

(* what release does to the released id itself *)
Lemma find_release_self s id tg :
  find_task (release s id tg) id =
  match alookup (ents s) tg with
  | Some e => if mem_str id (quit e) then option_map reset_counters (find_task s id) else find_task s id
  | None => find_task s id
  end.
Proof.
  rewrite release_unfold. destruct (alookup (ents s) tg) as [e|]; [|reflexivity].
  destruct (mem_str id (quit e)); cbn zeta.
  - destruct (_ =? 0)%Z; rewrite find_set_ents, find_upd by reflexivity; rewrite String.eqb_refl; reflexivity.
  - destruct (_ =? 0)%Z; reflexivity.
Qed.

Lemma in_quit_release s id tg tg' : ent_ok s ->
  (in_quit (release s id tg) tg' id <-> (in_quit s tg' id /\ tg' <> tg)).
Proof.
  intros EO. rewrite release_unfold. destruct (alookup (ents s) tg) as [e|] eqn:A.
  2:{ split; [intros H; split; [exact H|]|tauto]. intros ->. destruct H as [e [A' _]]; congruence. }
  destruct (EO tg e A) as [ND RC].
  assert (X : forall s' : st, ents s' = ents s ->
     (forall e1, ~ In id (quit e1) ->
       (in_quit (set_ents s' (aupsert (ents s') tg e1)) tg' id <-> in_quit s tg' id /\ tg' <> tg))
     /\ (in_quit (set_ents s' (aremove (ents s') tg)) tg' id <-> in_quit s tg' id /\ tg' <> tg)).
  { intros s' E. split; [intros e1 N1|]; unfold in_quit; cbn [set_ents ents]; rewrite E.
    - destruct (String.eqb_spec tg tg') as [<-|N].
      + rewrite alookup_aupsert_same. split; [intros [e0 [H B]]; injection H as <-; tauto|tauto].
      + rewrite alookup_aupsert_other by exact N. split; [intros H; split; [exact H|congruence]|tauto].
    - destruct (String.eqb_spec tg tg') as [<-|N].
      + rewrite alookup_aremove_same. split; [intros [e0 [H _]]; discriminate|tauto].
      + rewrite alookup_aremove_other by exact N. split; [intros H; split; [exact H|congruence]|tauto]. }
  destruct (mem_str id (quit e)) eqn:M; cbn zeta.
  - destruct (X (upd s id reset_counters) eq_refl) as [X1 X2]. cbn [refcnt quit].
    destruct (_ =? 0)%Z; [exact X2|]. apply X1. cbn. rewrite In_rm; tauto.
  - apply mem_str_false in M. destruct (X s eq_refl) as [X1 X2].
    destruct (_ =? 0)%Z; [exact X2|]. 
    (* the entity is written back unchanged: id was not in its quit list *)
    unfold in_quit; cbn [set_ents ents]. destruct (String.eqb_spec tg tg') as [<-|N].
    + rewrite alookup_aupsert_same, A. split; [intros [e0 [H B]]; injection H as <-; tauto|].
      intros [[e0 [H B]] _]. injection H as <-. tauto.
    + rewrite alookup_aupsert_other by exact N. split; [intros H; split; [exact H|congruence]|tauto].
Qed.

(* ---------- update_state ---------- *)
Definition with_sto (v : option view) (t : trec) : trec :=
  {| tid := tid t; ttarget := ttarget t; auto_off := auto_off t; mem := mem t; sto := v; started := started t; reg := reg t |}.
Definition with_mem (v : option view) (t : trec) : trec :=
  {| tid := tid t; ttarget := ttarget t; auto_off := auto_off t; mem := v; sto := sto t; started := started t; reg := reg t |}.

Lemma update_state_some s id new guard reason fg fp s' :
  update_state s id new guard reason fg fp = Some s' ->
  exists t v, find_task s id = Some t /\ sto t = Some v
    /\ (guard = [] \/ existsb (tstate_eqb (v_state v)) guard = true)
    /\ s' = g_update (upd s id (with_sto (Some {| v_state := new; v_reason := reason |}))) id new (v_state v).
Proof.
  unfold update_state. destruct fg; [discriminate|].
  destruct (find_task s id) as [t|]; [|discriminate]. destruct (sto t) as [v|] eqn:S; [|discriminate].
  destruct guard as [|g0 gr0]; cbn [negb].
  - destruct fp; [discriminate|]. intros H; injection H as <-. exists t, v. repeat split; auto.
  - destruct (existsb (tstate_eqb (v_state v)) (g0 :: gr0)) eqn:G; cbn [negb]; [|discriminate].
    destruct fp; [discriminate|]. intros H; injection H as <-. exists t, v. repeat split; auto.
Qed.

Lemma g_ok_g_set s x l : g_ok s -> NoDup l -> g_ok (g_set s x l).
Proof. intros [A [B C]] N. destruct x; cbn; repeat split; assumption. Qed.
Lemma g_ok_g_add s id x : g_ok s -> g_ok (g_add s id x).
Proof. intros G. apply g_ok_g_set; [exact G|]. apply NoDup_add. destruct G as [A [B C]]; destruct x; assumption. Qed.
Lemma g_ok_g_delete s id x : g_ok s -> g_ok (g_delete s id x).
Proof. intros G. apply g_ok_g_set; [exact G|]. apply NoDup_rm. destruct G as [A [B C]]; destruct x; assumption. Qed.
Lemma g_ok_g_update s id n o : g_ok s -> g_ok (g_update s id n o).
Proof. intros G. unfold g_update. destruct (mem_str id (g_get s o)); [|exact G]. apply g_ok_g_add, g_ok_g_delete, G. Qed.
Lemma g_ok_same s s' : gi s' = gi s -> gr s' = gr s -> gp s' = gp s -> g_ok s -> g_ok s'.
Proof. unfold g_ok. intros -> -> ->. tauto. Qed.

Lemma frame_update_state s id new guard reason fg fp s' id' :
  update_state s id new guard reason fg fp = Some s' -> id' <> id -> frame s s' id'.
Proof.
  intros H N. destruct (update_state_some _ _ _ _ _ _ _ _ H) as [t [v [_ [_ [_ ->]]]]].
  eapply frame_trans; [apply (frame_upd s id (with_sto (Some {| v_state := new; v_reason := reason |})) id'); [reflexivity|exact N]|apply frame_g_update; exact N].
Qed.
Lemma ents_update_state s id new guard reason fg fp s' :
  update_state s id new guard reason fg fp = Some s' -> ents s' = ents s.
Proof. intros H. destruct (update_state_some _ _ _ _ _ _ _ _ H) as [t [v [_ [_ [_ ->]]]]]. rewrite ents_g_update; reflexivity. Qed.
Lemma g_ok_update_state s id new guard reason fg fp s' :
  update_state s id new guard reason fg fp = Some s' -> g_ok s -> g_ok s'.
Proof.
  intros H G. destruct (update_state_some _ _ _ _ _ _ _ _ H) as [t [v [_ [_ [_ ->]]]]].
  apply g_ok_g_update. apply (g_ok_same s); try reflexivity; exact G.
Qed.

(* gauge membership of the updated id *)
Lemma g_update_self s id n o x : n <> o -> mem_str id (g_get s o) = true ->
  (In id (g_get (g_update s id n o) x) <-> (x = n \/ (x <> o /\ In id (g_get s x)))).
Proof.
  intros D M. unfold g_update; rewrite M. unfold g_add, g_delete.
  rewrite g_get_g_set. destruct (tstate_eqb_spec n x) as [<-|Nx].
  - rewrite In_add. tauto.
  - rewrite g_get_g_set. destruct (tstate_eqb_spec o x) as [<-|Ox].
    + rewrite In_rm. split; [tauto|]. intros [E|[E _]]; congruence.
    + split; [intros H; right; split; [congruence|exact H]|]. intros [E|[_ H]]; [congruence|exact H].
Qed.

(* ---------- the invariant "except one id", and the transient shape of a task about to be started ---------- *)
Record GInvX (s : st) (id : string) : Prop := {
  gx_task : forall id', id' <> id -> task_ok s id'; gx_ent : ent_ok s; gx_g : g_ok s }.

Lemma GInv_X s id : GInv s -> GInvX s id.
Proof. intros [A B C]; constructor; auto. Qed.
Lemma GInvX_full s id : GInvX s id -> task_ok s id -> GInv s.
Proof.
  intros [A B C] T; constructor; auto. intros id'. destruct (String.eqb_spec id' id) as [->|N]; auto.
Qed.
Lemma GInvX_frame s s' id : (forall id', id' <> id -> frame s s' id') -> ent_ok s' -> g_ok s' -> GInvX s id -> GInvX s' id.
Proof.
  intros F E G [A _ _]. constructor; auto. intros id' N. apply (task_ok_frame s s' id' (F id' N)). apply A; exact N.
Qed.

(* loaded, memory = store, no readers, not referenced by any entity, counted under its stored state only *)
Definition fresh_loaded (s : st) (id : string) : Prop :=
  exists t m v, find_task s id = Some t /\ tid t = id /\ mem t = Some m /\ sto t = Some v /\ v_state m = v_state v
    /\ started t = 0%Z /\ reg t = 0%Z /\ (forall tg, ~ in_quit s tg id) /\ (forall x, In id (g_get s x) <-> x = v_state v).

Lemma set_mem_upd s id v : set_mem s id v = upd s id (with_mem v). Proof. reflexivity. Qed.
Lemma set_sto_upd s id v : set_sto s id v = upd s id (with_sto v). Proof. reflexivity. Qed.

Lemma in_quit_same s s' tg id : ents s' = ents s -> (in_quit s' tg id <-> in_quit s tg id).
Proof. unfold in_quit; intros ->; tauto. Qed.

(* ---------- pause_with ---------- *)
Definition P := {| v_state := SPaused; v_reason := true |}.

Lemma pause_with_unfold s id guard fg fp :
  pause_with s id guard fg fp =
  match update_state s id SPaused guard true fg fp with
  | None =>
      match guard with
      | _ :: _ => (s, false)
      | [] => match find_task s id with
              | None => (s, false)
              | Some t => match mem t with None => (s, false) | Some _ => (release (upd s id (with_mem (Some P))) id (ttarget t), false) end
              end
      end
  | Some s1 =>
      match find_task s1 id with
      | None => (s1, true)
      | Some t => match mem t with None => (s1, true) | Some _ => (release (upd s1 id (with_mem (Some P))) id (ttarget t), true) end
      end
  end.
Proof.
  unfold pause_with. destruct (update_state s id SPaused guard true fg fp) as [s1|].
  - destruct guard as [|g0 gl]; destruct (find_task s1 id) as [t|]; try reflexivity; destruct (mem t); reflexivity.
  - destruct guard as [|g0 gl]; [|reflexivity]. destruct (find_task s id) as [t|]; [|reflexivity]. destruct (mem t); reflexivity.
Qed.

Lemma frame_pause_with s id guard fg fp id' : ent_ok s -> id' <> id -> frame s (fst (pause_with s id guard fg fp)) id'.
Proof.
  intros EO N. rewrite pause_with_unfold.
  destruct (update_state s id SPaused guard true fg fp) as [s1|] eqn:U.
  - pose proof (frame_update_state _ _ _ _ _ _ _ _ id' U N) as F1.
    pose proof (ents_update_state _ _ _ _ _ _ _ _ U) as E1.
    destruct (find_task s1 id) as [t|]; [|exact F1]. destruct (mem t); [|exact F1]. cbn [fst].
    eapply frame_trans; [exact F1|]. eapply frame_trans; [apply (frame_upd s1 id (with_mem (Some P)) id'); [reflexivity|exact N]|].
    apply frame_release; [|exact N]. apply (ent_ok_same s); [cbn; exact E1|exact EO].
  - destruct guard as [|g0 gl]; [|apply frame_refl]. destruct (find_task s id) as [t|]; [|apply frame_refl]. destruct (mem t); [|apply frame_refl].
    cbn [fst]. eapply frame_trans; [apply (frame_upd s id (with_mem (Some P)) id'); [reflexivity|exact N]|].
    apply frame_release; [|exact N]. apply (ent_ok_same s); [reflexivity|exact EO].
Qed.

Lemma ent_ok_pause_with s id guard fg fp : ent_ok s -> ent_ok (fst (pause_with s id guard fg fp)).
Proof.
  intros EO. rewrite pause_with_unfold.
  destruct (update_state s id SPaused guard true fg fp) as [s1|] eqn:U.
  - pose proof (ents_update_state _ _ _ _ _ _ _ _ U) as E1.
    assert (EO1 : ent_ok s1) by (apply (ent_ok_same s); assumption).
    destruct (find_task s1 id) as [t|]; [|exact EO1]. destruct (mem t); [|exact EO1]. cbn [fst].
    apply ent_ok_release. apply (ent_ok_same s1); [reflexivity|exact EO1].
  - destruct guard as [|g0 gl]; [|exact EO]. destruct (find_task s id) as [t|]; [|exact EO]. destruct (mem t); [|exact EO].
    cbn [fst]. apply ent_ok_release. apply (ent_ok_same s); [reflexivity|exact EO].
Qed.

Lemma g_ok_release s id tg : g_ok s -> g_ok (release s id tg).
Proof.
  intros G. apply (g_ok_same s); try exact G.
  - exact (g_get_release s id tg SInitial). - exact (g_get_release s id tg SRunning). - exact (g_get_release s id tg SPaused).
Qed.

Lemma g_ok_pause_with s id guard fg fp : g_ok s -> g_ok (fst (pause_with s id guard fg fp)).
Proof.
  intros G. rewrite pause_with_unfold.
  destruct (update_state s id SPaused guard true fg fp) as [s1|] eqn:U.
  - pose proof (g_ok_update_state _ _ _ _ _ _ _ _ U G) as G1.
    destruct (find_task s1 id) as [t|]; [|exact G1]. destruct (mem t); [|exact G1]. cbn [fst].
    apply g_ok_release. apply (g_ok_same s1); try reflexivity; exact G1.
  - destruct guard as [|g0 gl]; [|exact G]. destruct (find_task s id) as [t|]; [|exact G]. destruct (mem t); [|exact G].
    cbn [fst]. apply g_ok_release. apply (g_ok_same s); try reflexivity; exact G.
Qed.

Lemma g_update_collapse s id n o : (forall x, In id (g_get s x) <-> x = o) ->
  forall x, In id (g_get (g_update s id n o) x) <-> x = n.
Proof.
  intros H x. assert (M : mem_str id (g_get s o) = true) by (apply mem_str_In, H; reflexivity).
  unfold g_update; rewrite M. unfold g_add, g_delete. rewrite g_get_g_set.
  destruct (tstate_eqb_spec n x) as [<-|Nx].
  - rewrite In_add. tauto.
  - rewrite g_get_g_set. destruct (tstate_eqb_spec o x) as [<-|Ox].
    + rewrite In_rm. split; [tauto|congruence].
    + rewrite H. split; congruence.
Qed.

(* the shape of a task as the entity sees it: active (readers on, referenced by exactly its target's entity)
   or idle (no readers, referenced by nobody) *)
Definition wired (s : st) (id : string) (t : trec) : Prop :=
  (started t = 1%Z /\ reg t = 1%Z /\ forall tg, in_quit s tg id <-> tg = ttarget t)
  \/ (started t = 0%Z /\ reg t = 0%Z /\ forall tg, ~ in_quit s tg id).

Lemma pause_self s id guard fg fp t m v s1 :
  ent_ok s -> find_task s id = Some t -> tid t = id -> mem t = Some m -> sto t = Some v ->
  wired s id t -> (forall x, In id (g_get s x) <-> x = v_state v) -> ~ In id (gi s) \/ v_state v = SInitial ->
  update_state s id SPaused guard true fg fp = Some s1 ->
  task_ok (fst (pause_with s id guard fg fp)) id.
Proof.
  intros EO F T Mm Ss W G _ U. rewrite pause_with_unfold, U.
  destruct (update_state_some _ _ _ _ _ _ _ _ U) as [t' [v' [F' [S' [_ ->]]]]].
  rewrite F in F'; injection F' as <-. rewrite Ss in S'; injection S' as <-.
  set (sa := upd s id (with_sto (Some P))).
  rewrite find_g_update. unfold sa at 1. rewrite find_upd by reflexivity. rewrite String.eqb_refl, F. cbn [option_map with_sto mem].
  rewrite Mm. cbn [fst with_sto ttarget].
  set (s2 := upd (g_update sa id SPaused (v_state v)) id (with_mem (Some P))).
  assert (E2 : ents s2 = ents s) by (unfold s2, sa; cbn; rewrite ents_g_update; reflexivity).
  assert (F2 : find_task s2 id = Some (with_mem (Some P) (with_sto (Some P) t))).
  { unfold s2. rewrite find_upd by reflexivity. rewrite String.eqb_refl, find_g_update. unfold sa.
    rewrite find_upd by reflexivity. rewrite String.eqb_refl, F. reflexivity. }
  assert (G2 : forall x, In id (g_get s2 x) <-> x = SPaused).
  { intros x. unfold s2. rewrite g_get_upd. apply g_update_collapse. intros y. unfold sa. rewrite g_get_upd. apply G. }
  assert (EO2 : ent_ok s2) by (apply (ent_ok_same s); assumption).
  unfold task_ok.
  assert (GI : forall x, g_get (release s2 id (ttarget t)) x = g_get s2 x) by (intros x; apply g_get_release).
  split. { change (gi (release s2 id (ttarget t))) with (g_get (release s2 id (ttarget t)) SInitial). rewrite GI, G2. discriminate. }
  rewrite find_release_self, F2.
  assert (Q : forall tg, ~ in_quit (release s2 id (ttarget t)) tg id).
  { intros tg H. apply (in_quit_release s2 id (ttarget t) tg EO2) in H. destruct H as [H N].
    rewrite (in_quit_same s s2 tg id E2) in H. destruct W as [[_ [_ W]]|[_ [_ W]]]; [apply N, W, H|apply (W tg H)]. }
  assert (Fin : exists tf, (match alookup (ents s2) (ttarget t) with
                            | Some e => if mem_str id (quit e) then option_map reset_counters (Some (with_mem (Some P) (with_sto (Some P) t)))
                                        else Some (with_mem (Some P) (with_sto (Some P) t))
                            | None => Some (with_mem (Some P) (with_sto (Some P) t)) end) = Some tf
                           /\ tid tf = id /\ ttarget tf = ttarget t /\ mem tf = Some P /\ sto tf = Some P /\ started tf = 0%Z /\ reg tf = 0%Z).
  { rewrite E2. destruct W as [[W1 [W2 W3]]|[W1 [W2 W3]]].
    - pose proof (proj2 (W3 (ttarget t)) eq_refl) as [e [A B]]. rewrite A. apply mem_str_In in B. rewrite B.
      eexists; split; [reflexivity|]. cbn. repeat split; try assumption; lia.
    - destruct (alookup (ents s) (ttarget t)) as [e|] eqn:A.
      + destruct (mem_str id (quit e)) eqn:B.
        * exfalso. apply (W3 (ttarget t)). exists e; split; [exact A|apply mem_str_In; exact B].
        * eexists; split; [reflexivity|]. cbn. repeat split; assumption.
      + eexists; split; [reflexivity|]. cbn. repeat split; assumption. }
  destruct Fin as [tf [-> [T1 [T2 [T3 [T4 [T5 T6]]]]]]].
  split; [exact T1|]. split.
  { unfold good_task. rewrite T3, T4. cbn. repeat split; try discriminate; assumption. }
  assert (A0 : activeb tf = false) by (unfold activeb, runningb; rewrite T4; cbn; apply andb_false_r).
  assert (L0 : lpausedb tf = true) by (unfold lpausedb, loadedb, pausedb; rewrite T3, T4; reflexivity).
  split. { change (gr (release s2 id (ttarget t))) with (g_get (release s2 id (ttarget t)) SRunning). rewrite GI, G2, A0. split; discriminate. }
  split. { change (gp (release s2 id (ttarget t))) with (g_get (release s2 id (ttarget t)) SPaused). rewrite GI, G2, L0. tauto. }
  split. { intros tg. rewrite A0. split; [intros H; exfalso; apply (Q tg H)|intros [_ H]; discriminate]. }
  rewrite A0; discriminate.
Qed.
