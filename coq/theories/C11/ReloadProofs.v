From Coq Require Import List Arith Bool.
Import ListNotations.
From Verif Require Import C11.Reload.

(* a live process: the views agree and nothing is Initial *)
Definition Inv (s : st) : Prop := dead s = false -> stored s = mem s /\ stored s <> Some SInitial.

Lemma both_inv x : x <> Some SInitial -> Inv (both x).
Proof. intros H _. cbn. auto. Qed.
Lemma die_inv s : Inv (die s).
Proof. intros H. discriminate. Qed.

Lemma one_write_inv s x cut : x <> SInitial -> Inv (one_write s x cut).
Proof.
  intros Hx. unfold one_write. destruct (is_cut cut 0); [apply die_inv|].
  destruct (is_cut cut 1); [apply die_inv | apply both_inv; congruence].
Qed.

Lemma step_inv s l : Inv s -> Inv (step cfg_now s l).
Proof.
  intros Hs. destruct l as [cut|cut|cut| | ]; cbn [step].
  - destruct (dead s) eqn:Hd; [exact Hs|]. destruct (mem s); [exact Hs|].
    destruct (is_cut cut 0); [apply die_inv|]. destruct (is_cut cut 1); [apply die_inv|].
    destruct (is_cut cut 2); [apply die_inv | apply both_inv; discriminate].
  - destruct (dead s) eqn:Hd; [exact Hs|]. destruct (mem s) as [[| |]|]; try exact Hs. apply one_write_inv. discriminate.
  - destruct (dead s) eqn:Hd; [exact Hs|]. destruct (mem s) as [[| |]|]; try exact Hs. apply one_write_inv. discriminate.
  - destruct (dead s) eqn:Hd; [exact Hs|]. destruct (mem s); [apply both_inv; discriminate | exact Hs].
  - destruct (stored s) as [[| |]|]; cbn [cfg_now reload_updates_initial]; apply both_inv; discriminate.
Qed.

Theorem reload_every_history ls : Inv (run cfg_now init ls).
Proof.
  assert (H : forall s, Inv s -> Inv (run cfg_now s ls)).
  { induction ls as [|l r IH]; cbn [run]; intros s Hs; auto using step_inv. }
  apply H. intros _. cbn. split; [reflexivity | discriminate].
Qed.

(* after a restart every persisted task runs, whatever the crash left in the store *)
Theorem restart_runs s x : stored s = Some x ->
  let s' := step cfg_now s LRestart in stored s' = Some SRunning /\ mem s' = Some SRunning /\ dead s' = false.
Proof. intros H. cbn [step]. rewrite H. destruct x; cbn; auto. Qed.

(* a record the crash left as Initial is reachable ... *)
Example initial_record_reachable : stored (run cfg_now init [LCreate (Some 1)]) = Some SInitial.
Proof. reflexivity. Qed.

(* ... and a reload that doesn't persist Initial -> Running leaves the views apart *)
Theorem reload_skip_refuted : exists ls, ~ Inv (run cfg_skip init ls).
Proof.
  exists [LCreate (Some 1); LRestart]. intros H. specialize (H eq_refl). cbn in H. destruct H as [H _]. discriminate.
Qed.
