From Coq Require Import List Arith Bool.
Import ListNotations.
From Verif Require Import C11.Reload.

(* a live process: the views agree, nothing is Initial, the entity of the target is registered while the task runs and
   is not registered when there is no task (a deleted task has released it) *)
Definition Inv (s : st) : Prop :=
  dead s = false ->
  stored s = mem s /\ stored s <> Some SInitial /\ (mem s = Some SRunning -> ent s = true) /\ (mem s = None -> ent s = false).

Lemma both_inv x : x <> Some SInitial -> Inv (both x).
Proof. intros H _. cbn. repeat split; auto; intros E; rewrite E; reflexivity. Qed.
Lemma die_inv s : Inv (die s).
Proof. intros H. discriminate. Qed.

Lemma one_write_inv s x cut : x <> SInitial -> Inv (one_write s x cut).
Proof.
  intros Hx. unfold one_write. destruct (is_cut cut 0); [apply die_inv|].
  destruct (is_cut cut 1); [apply die_inv | apply both_inv; congruence].
Qed.

Lemma step_inv s l : Inv s -> Inv (step cfg_now s l).
Proof.
  intros Hs. destruct l as [cut|cut|cut| | | ]; cbn [step].
  - destruct (dead s) eqn:Hd; [exact Hs|]. destruct (mem s); [exact Hs|].
    destruct (is_cut cut 0); [apply die_inv|]. destruct (is_cut cut 1); [apply die_inv|].
    destruct (is_cut cut 2); [apply die_inv | apply both_inv; discriminate].
  - destruct (dead s) eqn:Hd; [exact Hs|]. destruct (mem s) as [[| |]|]; try exact Hs. apply one_write_inv. discriminate.
  - destruct (dead s) eqn:Hd; [exact Hs|]. destruct (mem s) as [[| |]|]; try exact Hs. apply one_write_inv. discriminate.
  - destruct (dead s) eqn:Hd; [exact Hs|]. destruct (mem s) as [[| |]|] eqn:Hm; try exact Hs.
    intros _. destruct (Hs Hd) as [A [B _]]. cbn [stored mem ent]. rewrite Hm in *. repeat split; auto; discriminate.
  - destruct (dead s) eqn:Hd; [exact Hs|]. destruct (mem s); [apply both_inv; discriminate | exact Hs].
  - destruct (stored s) as [[| |]|]; cbn [cfg_now reload_updates_initial]; apply both_inv; discriminate.
Qed.

Theorem reload_every_history ls : Inv (run cfg_now init ls).
Proof.
  assert (H : forall s, Inv s -> Inv (run cfg_now s ls)).
  { induction ls as [|l r IH]; cbn [run]; intros s Hs; auto using step_inv. }
  apply H. intros _. cbn. repeat split; auto; discriminate.
Qed.

(* a delete releases the entity, whatever was left registered - also the idle entity a refused resume leaves behind *)
Theorem delete_releases s x : dead s = false -> mem s = Some x -> ent (step cfg_now s LDelete) = false.
Proof. intros Hd Hm. cbn [step]. rewrite Hd, Hm. reflexivity. Qed.

(* so does a pause *)
Theorem pause_releases s : dead s = false -> mem s = Some SRunning -> ent (step cfg_now s (LPause None)) = false.
Proof. intros Hd Hm. cbn [step]. rewrite Hd, Hm. reflexivity. Qed.

(* after a restart every persisted task runs, whatever the crash left in the store *)
Theorem restart_runs s x : stored s = Some x ->
  let s' := step cfg_now s LRestart in stored s' = Some SRunning /\ mem s' = Some SRunning /\ dead s' = false /\ ent s' = true.
Proof. intros H. cbn [step]. rewrite H. destruct x; cbn; auto. Qed.

(* a record the crash left as Initial is reachable ... *)
Example initial_record_reachable : stored (run cfg_now init [LCreate (Some 1)]) = Some SInitial.
Proof. reflexivity. Qed.

(* ... and a reload that doesn't persist Initial -> Running leaves the views apart *)
Theorem reload_skip_refuted : exists ls, ~ Inv (run cfg_skip init ls).
Proof.
  exists [LCreate (Some 1); LRestart]. intros H. specialize (H eq_refl). cbn in H. destruct H as [H _]. discriminate.
Qed.
