(* the checker of C11.LCheck accepts every trace of the model *)
From Coq Require Import List Arith Bool.
Import ListNotations.
From Verif Require Import C11.Reload C11.ReloadProofs C11.LCheck.

Lemma o_ok_inv s : Inv s -> o_ok (observe s) = true.
Proof.
  intros H. unfold o_ok, observe. destruct (dead s) eqn:Hd; [reflexivity|]. cbn [orb].
  destruct (H Hd) as [He [Hn [Hr H0]]]. rewrite <- He. rewrite Nat.eqb_refl. cbn [andb].
  rewrite <- He in Hr, H0.
  destruct (stored s) as [[| |]|]; cbn; try reflexivity.
  - congruence.
  - now rewrite Hr.
  - now rewrite H0.
Qed.

Lemma restart_code s : Inv s ->
  let '(c, _, _, _) := observe (step cfg_now s LRestart) in (Nat.eqb c 0 || Nat.eqb c 2) = true.
Proof. intros _. cbn [step]. destruct (stored s) as [[| |]|]; reflexivity. Qed.

Theorem model_traces_accepted ls : forall s, Inv s ->
  forallb o_ok (trace cfg_now s ls) && restarts_ok ls (trace cfg_now s ls) = true.
Proof.
  induction ls as [|l r IH]; intros s Hs; [reflexivity|].
  cbn [trace forallb]. specialize (IH (step cfg_now s l) (step_inv s l Hs)).
  apply andb_true_iff in IH. destruct IH as [I1 I2].
  rewrite (o_ok_inv _ (step_inv s l Hs)), I1. cbn [andb].
  destruct l; cbn [restarts_ok]; try exact I2.
  assert (H := restart_code s Hs). destruct (observe (step cfg_now s LRestart)) as [[[c m] d] e].
  cbv beta iota in H |- *. now rewrite H, I2.
Qed.

Corollary agreeing_case_accepted k : lc_obs k = trace cfg_now init (lc_ops k) -> check_C11r k = true.
Proof.
  intros Heq. unfold check_C11r. rewrite Heq. apply model_traces_accepted.
  intros _. cbn. repeat split; auto; discriminate.
Qed.
