(* C11, crash points and reload - cases of `h_c11r`: the real MetaCDC over lib/sfake, API calls cut by a crash after n
   writes of the task record, restarts with the real ReloadTask.  After every label: the persisted state, the in-memory
   state together with what get reports (a disagreement is reported as 9), dead, and whether the replicate entity of the
   target is registered. *)
From Coq Require Import List Arith NArith Bool.
From Verif Require Import Base.Util.
From Verif Require Export C11.Reload.
Import ListNotations.

Record lcase := { lc_ops : list label; lc_obs : list obs }.

Definition o_eqb (a b : obs) : bool :=
  let '(s1, m1, d1, e1) := a in let '(s2, m2, d2, e2) := b in Nat.eqb s1 s2 && Nat.eqb m1 m2 && Bool.eqb d1 d2 && Bool.eqb e1 e2.
Fixpoint t_eqb (a b : list obs) : bool :=
  match a, b with
  | [], [] => true
  | x :: a', y :: b' => o_eqb x y && t_eqb a' b'
  | _, _ => false
  end.
Definition lagrees (k : lcase) : bool := t_eqb (trace cfg_now init (lc_ops k)) (lc_obs k).

(* the statement on the implementation's own observations: a live process shows one state everywhere, never Initial; the
   entity of the target is registered while the task runs and is not registered when there is no task *)
Definition o_ok (o : obs) : bool :=
  let '(s, m, d, e) := o in
  d || (Nat.eqb s m && negb (Nat.eqb s 1) && (negb (Nat.eqb m 2) || e) && (negb (Nat.eqb m 0) || negb e)).
(* after a restart a persisted task runs *)
Fixpoint restarts_ok (ops : list label) (os : list obs) : bool :=
  match ops, os with
  | LRestart :: ops', (s, m, d, e) :: os' => (Nat.eqb s 0 || Nat.eqb s 2) && restarts_ok ops' os'
  | _ :: ops', _ :: os' => restarts_ok ops' os'
  | [], [] => true
  | _, _ => false
  end.
Definition check_C11r (k : lcase) : bool := forallb o_ok (lc_obs k) && restarts_ok (lc_ops k) (lc_obs k).

Definition mismatches (l : list (N * lcase)) : list N := failing_ids lagrees l.
Definition checkfails (l : list (N * lcase)) : list N := failing_ids check_C11r l.
Definition knownclass (l : list (N * lcase)) : list (N * N) := [].
