(* C11, crash points and reload: one task with auto start; every API call may be cut by a crash of the process after n
   durable effects (writes of the task record); a restart reloads the persisted record with the real ReloadTask.
   The views of a live process agree (persisted state = in-memory state = what get reports), no live process shows a task
   as Initial, and after a restart every persisted task runs - whatever state the crash left in the store. *)
From Coq Require Import List Arith Bool.
Import ListNotations.

Inductive tstate := SInitial | SRunning | SPaused.
Definition tstate_eqb (a b : tstate) : bool :=
  match a, b with SInitial, SInitial | SRunning, SRunning | SPaused, SPaused => true | _, _ => false end.

Record cfg := { reload_updates_initial : bool }.   (* ReloadTask persists Initial -> Running like Paused -> Running *)
Definition cfg_now := {| reload_updates_initial := true |}.
Definition cfg_skip := {| reload_updates_initial := false |}.

(* ent: the replicate entity of the task's target is registered (its loops, dispatchers and downstream client are alive) *)
Record st := { stored : option tstate; mem : option tstate; dead : bool; ent : bool }.
Definition init : st := {| stored := None; mem := None; dead := false; ent := false |}.

Inductive label :=
| LCreate (cut : option nat)
| LPause (cut : option nat)
| LResume (cut : option nat)
| LResumeFail                 (* a resume whose store update is refused: the task stays paused *)
| LDelete
| LRestart.

Definition is_cut (cut : option nat) (n : nat) : bool := match cut with Some m => Nat.eqb m n | None => false end.
Definition die (s : st) : st := {| stored := stored s; mem := mem s; dead := true; ent := false |}.
(* the entity lives exactly while the task runs *)
Definition both (x : option tstate) : st :=
  {| stored := x; mem := x; dead := false; ent := match x with Some SRunning => true | _ => false end |}.

(* one write of the task record, then the memory follows; the process may die before or after the write *)
Definition one_write (s : st) (x : tstate) (cut : option nat) : st :=
  if is_cut cut 0 then die s
  else if is_cut cut 1 then die (both (Some x)) else both (Some x).

Definition step (g : cfg) (s : st) (l : label) : st :=
  match l with
  | LRestart =>
      match stored s with
      | None => both None
      | Some SRunning => both (Some SRunning)
      | Some SPaused => both (Some SRunning)
      | Some SInitial => if reload_updates_initial g then both (Some SRunning)
                         else {| stored := Some SInitial; mem := Some SRunning; dead := false; ent := true |}
      end
  | _ =>
    if dead s then s else
    match l with
    | LCreate cut =>
        match mem s with
        | Some _ => s                         (* answered with the existing task *)
        | None =>
            if is_cut cut 0 then die s
            else if is_cut cut 1 then die (both (Some SInitial))
            else if is_cut cut 2 then die (both (Some SRunning)) else both (Some SRunning)
        end
    | LPause cut => match mem s with Some SRunning => one_write s SPaused cut | _ => s end
    | LResume cut => match mem s with Some SPaused => one_write s SRunning cut | _ => s end
    | LResumeFail =>
        (* the start is rolled back: readers quit, the reference is given back; the entity it was registered for stays, idle,
           until the next pause or delete of a task of the target collects it *)
        match mem s with Some SPaused => {| stored := stored s; mem := mem s; dead := false; ent := true |} | _ => s end
    | LDelete => match mem s with Some _ => both None | None => s end
    | LRestart => s
    end
  end.

Fixpoint run (g : cfg) (s : st) (ls : list label) : st :=
  match ls with [] => s | l :: r => run g (step g s l) r end.

(* observation after every label: persisted state, in-memory state (None while the process is dead), state reported by get *)
Definition code (x : option tstate) : nat := match x with None => 0 | Some SInitial => 1 | Some SRunning => 2 | Some SPaused => 3 end.
Definition obs := (nat * nat * bool * bool)%type.     (* stored, memory, dead, entity registered *)
Definition observe (s : st) : obs := (code (stored s), if dead s then 0 else code (mem s), dead s, ent s).
Fixpoint trace (g : cfg) (s : st) (ls : list label) : list obs :=
  match ls with [] => [] | l :: r => let s' := step g s l in observe s' :: trace g s' r end.
