(* C05, the create-collection event - cases of `h_c05e`: the real event loop of MetaCDC over lib/sfake, with a crash of the
   process after n externally visible effects of an event (the fakes stop answering the dead incarnation), restarts with the
   real ReloadTask / startInternal / CollectionReader.  After every label: the collections with a checkpoint record, the
   collections whose creation the downstream has acknowledged, the persisted task state, and every start of a collection by a
   reader so far (collection, acknowledged downstream at that time, seek position given). *)
From Coq Require Import List Arith NArith Bool.
From Verif Require Import Base.Util.
From Verif Require Export C05.Create.
Import ListNotations.

Record ecase := { ec_ops : list label; ec_obs : list obs }.

Definition set_eqb (a b : list nat) : bool :=
  Nat.eqb (List.length a) (List.length b) && forallb (fun x => mem x b) a && forallb (fun x => mem x a) b.
Definition seek_eqb (a b : nat * bool * bool) : bool :=
  let '(c1, d1, h1) := a in let '(c2, d2, h2) := b in Nat.eqb c1 c2 && Bool.eqb d1 d2 && Bool.eqb h1 h2.
Fixpoint seeks_eqb (a b : list (nat * bool * bool)) : bool :=
  match a, b with
  | [], [] => true
  | x :: a', y :: b' => seek_eqb x y && seeks_eqb a' b'
  | _, _ => false
  end.
Definition obs_eqb (a b : obs) : bool :=
  let '(k1, d1, r1, s1) := a in let '(k2, d2, r2, s2) := b in
  set_eqb k1 k2 && set_eqb d1 d2 && Bool.eqb r1 r2 && seeks_eqb s1 s2.
Fixpoint trace_eqb (a b : list obs) : bool :=
  match a, b with
  | [], [] => true
  | x :: a', y :: b' => obs_eqb x y && trace_eqb a' b'
  | _, _ => false
  end.

Definition eagrees (k : ecase) : bool := trace_eqb (trace cfg_now init (ec_ops k)) (ec_obs k).

(* the statement on the implementation's own observations *)
Definition obs_ok (o : obs) : bool :=
  let '(k, d, _, s) := o in
  forallb (fun c => mem c k) d && forallb (fun x => let '(_, dd, h) := x in negb dd || h) s.
Definition check_C05e (k : ecase) : bool := Nat.eqb (List.length (ec_ops k)) (List.length (ec_obs k)) && forallb obs_ok (ec_obs k).

Definition mismatches (l : list (N * ecase)) : list N := failing_ids eagrees l.
Definition checkfails (l : list (N * ecase)) : list N := failing_ids check_C05e l.
Definition knownclass (l : list (N * ecase)) : list (N * N) := [].
