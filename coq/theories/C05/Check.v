(* C05 — checker over the implementation's observations: checkpoints never run ahead of acknowledged writes,
   frozen after a replayed drop, and the restart hands the reader exactly the checkpoint *)
From Coq Require Import List String NArith ZArith Bool.
From Verif Require Import Base.Util Server.Data.
Import ListNotations.

Definition acked (o : obs) (k i : nat) : bool :=
  existsb (fun a => Nat.eqb (snd (fst a)) k && Nat.eqb (snd a) i) (o_acks o).

(* the checkpoint of stream k names pack id-1, which is acknowledged together with every earlier pack of the stream,
   and carries that pack's end time *)
Definition ckpt_ok (o : obs) (e : nat * (N * Z * bool)) : bool :=
  let k := fst e in let id := fst (fst (snd e)) in let ms := snd (fst (snd e)) in
  let n := N.to_nat id in
  negb (Nat.eqb n 0) && forallb (fun i => acked o k i) (seq 0 n) && Z.eqb ms (pk_ms k (n - 1)).

(* a frozen checkpoint keeps its value *)
Definition frozen_ok (prev o : obs) : bool :=
  forallb (fun e : nat * (N * Z * bool) => let k := fst e in let id := fst (fst (snd e)) in let ms := snd (fst (snd e)) in let d := snd (snd e) in
     if d then existsb (fun e' => Nat.eqb (fst e') k && N.eqb (fst (fst (snd e'))) id && Z.eqb (snd (fst (snd e'))) ms && snd (snd e')) (o_store o)
     else true) (o_store prev).

(* every seek position handed to the reader during this label is the stream's checkpoint as stored before the
   label, with the time filter ComposeTS(Time + 1, 0) *)
Definition new_seeks (prev o : obs) : list (nat * (N * Z)) := skipn (List.length (o_seeks prev)) (o_seeks o).
Definition seeks_ok (prev o : obs) : bool :=
  forallb (fun sk : nat * (N * Z) => let k := fst sk in let id := fst (snd sk) in let ts := snd (snd sk) in
     existsb (fun e => Nat.eqb (fst e) k && N.eqb (fst (fst (snd e))) id && Z.eqb ts (compose_ts (snd (fst (snd e)) + 1))) (o_store prev))
    (new_seeks prev o).

Definition empty_obs : obs := {| o_acks := []; o_store := []; o_running := []; o_alive := []; o_evloop := true;
                                 o_wfails := []; o_pfails := []; o_seeks := [] |}.

Fixpoint check_all (prev : obs) (os : list obs) : bool :=
  match os with
  | [] => true
  | o :: r => forallb (ckpt_ok o) (o_store o) && frozen_ok prev o && seeks_ok prev o && check_all o r
  end.
Definition check_C05 (c : case) : bool := check_all empty_obs (c_obs c).

Definition mismatches (l : list (N * case)) : list N := failing_ids agrees l.
Definition checkfails (l : list (N * case)) : list N := failing_ids check_C05 l.
Definition knownclass (l : list (N * case)) : list (N * N) := [].
