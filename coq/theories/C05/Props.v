(* C05 — property theorems only (model: Server/Data.v) *)
From Coq Require Import List String NArith ZArith Bool.
From Verif Require Import Base.Util Server.Data Server.DataProofs Server.DataInv C05.Check.
(* the store-level harness of this check (h_c12) evaluates its cases with the C12 model and checker *)
From Verif Require C12.Model C12.Check.
Import ListNotations.

(* a batch in which a downstream write or the checkpoint write fails advances no checkpoint: for every state,
   channel, batch and failure position *)
Theorem C05_failure_never_advances : forall streams s ch b wfail pfail,
  snd (flush streams s ch b wfail pfail) = true -> store (fst (flush streams s ch b wfail pfail)) = store s.
Proof. exact flush_error_store. Qed.
Print Assumptions C05_failure_never_advances.

(* the downstream writes of a batch never touch the checkpoints at all: checkpoints are written only after the
   whole batch has been acknowledged *)
Theorem C05_writes_before_checkpoints : forall streams ch b s n wfail,
  store (fst (write_all streams s ch b n wfail)) = store s.
Proof. exact write_all_store. Qed.
Print Assumptions C05_writes_before_checkpoints.

(* when a batch goes through, every pack of it is in the acknowledgement log *)
Theorem C05_batch_acknowledged : forall streams s ch b wfail pfail,
  snd (flush streams s ch b wfail pfail) = false ->
  forall k i, In (k, i) b -> In (ch, k, i) (acks (fst (flush streams s ch b wfail pfail))).
Proof. exact flush_ok_acks. Qed.
Print Assumptions C05_batch_acknowledged.

(* a checkpoint marked dropped is frozen *)
Theorem C05_dropped_frozen : forall s k i p, nlookup (store s) k = Some p -> ps_dropped p = true -> put_pos s k i = s.
Proof. exact put_pos_frozen. Qed.
Print Assumptions C05_dropped_frozen.

(* a (re)start hands the reader exactly the stored checkpoints (message id, time filter ComposeTS(Time+1, 0))
   and changes neither checkpoints nor acknowledgements *)
Theorem C05_resume_from_checkpoint : forall streams s which,
  let s' := reset_next streams s which in
  store s' = store s /\ acks s' = acks s /\ running s' = running s
  /\ exists new, seeks s' = (seeks s ++ new)%list
       /\ forall k id ts, In (k, (id, ts)) new ->
            exists p, nlookup (store s) k = Some p /\ id = ps_id p /\ ts = compose_ts (ps_ms p + 1).
Proof. exact reset_next_seeks. Qed.
Print Assumptions C05_resume_from_checkpoint.

(* non-vacuity and the composed behaviour on a concrete history: batches of two, a refused write in the middle of
   a batch, resume, crash with a buffered pack; at the end every pack of the stream is acknowledged at least once
   and the checkpoint is the last pack *)
(* Every history - any number of tasks, source streams and downstream channels, any batch size, write and checkpoint-write
   failures at any position, drop events, error events, pauses, resumes, crashes with restart and reload, in any order: every
   checkpoint names a pack (message id n, that pack's end time) such that the pack and every earlier pack of its stream
   have been acknowledged by the downstream. *)
Theorem C05_every_history : forall maxcount streams ls k p,
  let s := run maxcount streams ls in
  nlookup (store s) k = Some p ->
  let n := N.to_nat (ps_id p) in (1 <= n)%nat /\ ps_ms p = pk_ms k (n - 1) /\ forall j, (j < n)%nat -> DataInv.acked s k j.
Proof. intros maxcount streams ls k p s L. destruct (run_Inv maxcount streams ls (init streams) (Inv_init streams)) as [A _]. exact (A k p L). Qed.
Print Assumptions C05_every_history.

(* the invariant behind it is inductive: one label keeps it from any state that has it *)
Theorem C05_step : forall maxcount streams s l, Inv streams s -> Inv streams (step maxcount streams s l).
Proof. exact step_Inv. Qed.
Print Assumptions C05_step.

Example C05_nonvacuous :
  let streams := [{| s_task := "a"; s_coll := 101; s_name := "c1"; s_pch := "p"; s_ch := "q"; s_len := 6 |}]%string in
  let ls := [Feed 0 false None false; Feed 0 false None false; Feed 0 false None false; Feed 0 false (Some 2) false; ApiResume "a"%string;
             Feed 0 false None false; Crash; Feed 0 false None false; Feed 0 false None false; Feed 0 false None false; Feed 0 false None false] in
  let s := run 2 streams ls in
  forallb (fun i => existsb (fun a => Nat.eqb (snd a) i) (acks s)) (seq 0 6) = true
  /\ option_map ps_id (nlookup (store s) 0) = Some 6%N
  /\ check_C05 {| c_max := 2; c_streams := streams; c_labels := ls; c_obs := run_obs 2 streams (init streams) ls |} = true.
Proof. vm_compute. repeat split. Qed.

(* ---- the create-collection event: first checkpoint of a new collection and its creation downstream
   (model: C05/Create.v, cases of harness h_c05e checked by C05.ECheck) ---- *)
Require Verif.C05.Create Verif.C05.CreateProofs Verif.C05.ECheck Verif.C05.ECheckProofs.

(* for every history of create-collection events - the store or the downstream refusing, the process crashing after any
   number of durable effects of an event - pauses, resumes and restarts: at every instant a collection whose creation the
   downstream has acknowledged has a checkpoint, and every collection a reader has started while it existed downstream was
   started from a seek position (never from "latest") *)
Theorem C05_created_has_checkpoint : forall ls,
  let s := Create.run Create.cfg_now Create.init ls in
  (forall c, Create.mem c (Create.dn s) = true -> Create.mem c (Create.ck s) = true)
  /\ (forall c d h, In (c, d, h) (Create.seeks s) -> d = true -> h = true).
Proof. exact CreateProofs.create_every_history. Qed.
Print Assumptions C05_created_has_checkpoint.

(* an event that nothing interrupts does both *)
Theorem C05_create_completes : forall s c,
  Create.dead s = false -> Create.ev s = true -> Create.running s = true ->
  let s' := Create.step Create.cfg_now s (Create.LCreate c false false None) in
  Create.mem c (Create.ck s') = true /\ Create.mem c (Create.dn s') = true.
Proof. exact CreateProofs.create_completes. Qed.
Print Assumptions C05_create_completes.

(* the checker evaluated on the implementation's observations accepts every trace of this model *)
Theorem C05_create_checker_accepts_model : forall k,
  ECheck.ec_obs k = Create.trace Create.cfg_now Create.init (ECheck.ec_ops k) -> ECheck.check_C05e k = true.
Proof. exact ECheckProofs.agreeing_case_accepted. Qed.
Print Assumptions C05_create_checker_accepts_model.

(* with the two effects in the other order the statement is false: a crash between them, then a restart *)
Theorem C05_create_swapped_refuted : exists ls, ~ CreateProofs.Inv (Create.run Create.cfg_swapped Create.init ls).
Proof. exact CreateProofs.swapped_refuted. Qed.
Print Assumptions C05_create_swapped_refuted.
