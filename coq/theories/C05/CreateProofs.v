From Coq Require Import List Arith Bool Lia.
Import ListNotations.
From Verif Require Import C05.Create.

Lemma mem_app c l x : mem c (l ++ [x]) = mem c l || Nat.eqb c x.
Proof. unfold mem. rewrite existsb_app. cbn. now rewrite orb_false_r. Qed.

Lemma mem_add c x l : mem c (add x l) = mem c l || Nat.eqb c x.
Proof.
  unfold add. destruct (mem x l) eqn:E.
  - destruct (Nat.eqb c x) eqn:Ec; [|now rewrite orb_false_r].
    apply Nat.eqb_eq in Ec. subst. now rewrite E.
  - apply mem_app.
Qed.

(* every collection the downstream has acknowledged has a checkpoint; every collection a reader has started and that
   existed downstream was started from a position *)
Definition Inv (s : st) : Prop :=
  (forall c, mem c (dn s) = true -> mem c (ck s) = true)
  /\ (forall c d h, In (c, d, h) (seeks s) -> d = true -> h = true).

Lemma inv_same s s' : ck s' = ck s -> dn s' = dn s -> seeks s' = seeks s -> Inv s -> Inv s'.
Proof. intros H1 H2 H3 [Ha Hb]. split; [rewrite H1, H2 | rewrite H3]; auto. Qed.

Lemma put_ck_inv s c : Inv s -> Inv (put_ck s c).
Proof.
  intros [Ha Hb]. split; cbn [put_ck ck dn seeks]; auto. intros c' Hd. rewrite mem_add. now rewrite (Ha _ Hd).
Qed.

Lemma put_both_inv s c : Inv s -> Inv (put_dn (put_ck s c) c).
Proof.
  intros [Ha Hb]. split; cbn [put_dn put_ck ck dn seeks]; auto. intros c'. rewrite !mem_add.
  destruct (Nat.eqb c' c); [now rewrite !orb_true_r|]. rewrite !orb_false_r. auto.
Qed.

Lemma create_inv s c pfail wfail cut : Inv s -> Inv (create cfg_now s c pfail wfail cut).
Proof.
  intros Hs. unfold create. cbn [ckpt_first cfg_now negb].
  destruct (is_cut cut 0); [now apply (inv_same s)|].
  unfold effect at 1. destruct pfail; [now apply (inv_same s)|].
  destruct (is_cut cut 1); [apply (inv_same (put_ck s c)); auto using put_ck_inv|].
  unfold effect. destruct wfail; [apply (inv_same (put_ck s c)); auto using put_ck_inv|].
  destruct (is_cut cut 2); [apply (inv_same (put_dn (put_ck s c) c)); auto using put_both_inv | now apply put_both_inv].
Qed.

Lemma start_reader_inv s : Inv s -> Inv (start_reader s).
Proof.
  intros [Ha Hb]. split; cbn; auto. intros c d h Hin Hd. apply in_app_or in Hin. destruct Hin as [Hin|Hin]; [eauto|].
  apply in_map_iff in Hin. destruct Hin as [c' [Heq _]]. inversion Heq; subst. auto.
Qed.

Lemma step_inv s l : Inv s -> Inv (step cfg_now s l).
Proof.
  intros Hs. destruct l as [c pfail wfail cut | | | ]; cbn [step].
  - assert (H0 : Inv (with_cat s c)) by (now apply (inv_same s)).
    destruct (dead (with_cat s c) || negb (ev (with_cat s c))); [exact H0|].
    destruct (negb (running (with_cat s c))); [now apply (inv_same s) | now apply create_inv].
  - destruct (dead s || negb (running s)); [exact Hs | now apply (inv_same s)].
  - destruct (dead s || running s); [exact Hs | now apply start_reader_inv].
  - now apply start_reader_inv.
Qed.

Theorem create_every_history ls : Inv (run cfg_now init ls).
Proof.
  assert (H : forall s, Inv s -> Inv (run cfg_now s ls)).
  { induction ls as [|l r IH]; cbn [run]; intros s Hs; auto using step_inv. }
  apply H. split; cbn; [discriminate | tauto].
Qed.

(* with the two effects swapped a crash between them leaves an acknowledged collection without a checkpoint, and the
   restart reads it from "latest" *)
Theorem swapped_refuted : exists ls, ~ Inv (run cfg_swapped init ls).
Proof.
  exists [LCreate 1 false false (Some 1); LRestart]. intros [_ Hb].
  specialize (Hb 1 true false). cbn in Hb. assert (false = true) by (apply Hb; auto). discriminate.
Qed.

(* without a crash or a refusal both effects happen *)
Theorem create_completes s c :
  dead s = false -> ev s = true -> running s = true ->
  let s' := step cfg_now s (LCreate c false false None) in mem c (ck s') = true /\ mem c (dn s') = true.
Proof.
  intros Hd He Hr. cbn [step]. cbn [with_cat dead ev running]. rewrite Hd, He, Hr. cbn [orb negb].
  unfold create. cbn [is_cut ckpt_first cfg_now effect negb put_ck put_dn ck dn].
  rewrite !mem_add, !Nat.eqb_refl, !orb_true_r. auto.
Qed.

Example create_somewhere :
  observe (run cfg_now init [LCreate 1 false false None; LCreate 2 false true None; LResume; LCreate 2 false false (Some 1); LRestart; LCreate 2 false false None])
  = ([1; 2], [1; 2], true, [(1, true, true); (2, false, true); (1, true, true); (2, false, true)]).
Proof. reflexivity. Qed.
