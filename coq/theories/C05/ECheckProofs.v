(* the checker of C05.ECheck accepts every trace of the model *)
From Coq Require Import List Arith Bool Lia.
Import ListNotations.
From Verif Require Import C05.Create C05.CreateProofs C05.ECheck.

Lemma mem_in c l : In c l -> mem c l = true.
Proof. intros H. unfold mem. apply existsb_exists. exists c. split; auto. apply Nat.eqb_refl. Qed.

Lemma obs_ok_inv s : Inv s -> obs_ok (observe s) = true.
Proof.
  intros [Ha Hb]. unfold obs_ok, observe. apply andb_true_intro. split; apply forallb_forall.
  - intros c Hc. apply Ha. now apply mem_in.
  - intros [[c d] h] Hin. destruct d; cbn; auto. now apply (Hb c true h).
Qed.

Lemma trace_length g ls : forall s, List.length (trace g s ls) = List.length ls.
Proof. induction ls as [|l r IH]; cbn; intros s; auto. Qed.

Theorem model_traces_accepted ls : forall s, Inv s -> forallb obs_ok (trace cfg_now s ls) = true.
Proof.
  induction ls as [|l r IH]; cbn [trace forallb]; intros s Hs; auto.
  rewrite obs_ok_inv by (now apply step_inv). cbn. apply IH. now apply step_inv.
Qed.

Corollary agreeing_case_accepted k : ec_obs k = trace cfg_now init (ec_ops k) -> check_C05e k = true.
Proof.
  intros Heq. unfold check_C05e. rewrite Heq, trace_length, Nat.eqb_refl. cbn.
  apply model_traces_accepted. split; cbn; [discriminate | tauto].
Qed.
