(* C05, the create-collection event: the event loop of an entity (server/cdc_impl.go startReplicateAPIEvent) persists the
   start positions of a new collection as its first checkpoint and replays the creation downstream.  A restart (or a
   resume) starts a collection that exists downstream from its checkpoint - and from "latest" when there is none - so
   at every instant, also between the two effects of one event, a collection the downstream has acknowledged must have
   a checkpoint.

   One label is one event (or API call) with everything it triggers; `cut = Some n` is a crash of the process after n
   externally visible effects of the label (checkpoint write, downstream acknowledgement).  One task on one target. *)
From Coq Require Import List Arith Bool Lia.
Import ListNotations.

Record cfg := { ckpt_first : bool }.     (* the checkpoint is written before the creation is replayed *)
Definition cfg_now := {| ckpt_first := true |}.
Definition cfg_swapped := {| ckpt_first := false |}.

Record st := {
  cat : list nat;                 (* collections of the source, in creation order *)
  ck : list nat;                  (* collections with a persisted checkpoint *)
  dn : list nat;                  (* collections whose creation the downstream has acknowledged *)
  running : bool;                 (* persisted task state *)
  ev : bool;                      (* the event loop of the entity is serving *)
  dead : bool;                    (* the process has crashed and has not been restarted *)
  seeks : list (nat * bool * bool) (* every start of a collection by a reader: collection, exists downstream, seek position given *)
}.

Inductive label :=
| LCreate (c : nat) (pfail wfail : bool) (cut : option nat)   (* create-collection event; the store / the downstream refuses; crash point *)
| LPause
| LResume
| LRestart.

Definition mem (c : nat) (l : list nat) : bool := existsb (Nat.eqb c) l.
Definition add (c : nat) (l : list nat) : list nat := if mem c l then l else l ++ [c].

Definition with_cat (s : st) (c : nat) : st :=
  {| cat := add c (cat s); ck := ck s; dn := dn s; running := running s; ev := ev s; dead := dead s; seeks := seeks s |}.
Definition die (s : st) : st :=
  {| cat := cat s; ck := ck s; dn := dn s; running := running s; ev := false; dead := true; seeks := seeks s |}.
Definition pause (s : st) : st :=
  {| cat := cat s; ck := ck s; dn := dn s; running := false; ev := false; dead := dead s; seeks := seeks s |}.
Definition put_ck (s : st) (c : nat) : st :=
  {| cat := cat s; ck := add c (ck s); dn := dn s; running := running s; ev := ev s; dead := dead s; seeks := seeks s |}.
Definition put_dn (s : st) (c : nat) : st :=
  {| cat := cat s; ck := ck s; dn := add c (dn s); running := running s; ev := ev s; dead := dead s; seeks := seeks s |}.

Definition is_cut (cut : option nat) (n : nat) : bool := match cut with Some m => Nat.eqb m n | None => false end.

(* the two effects in the order of the configuration; each may be refused (the task is paused, the loop ends);
   the process may die after n effects *)
Definition effect (first : bool) (s : st) (c : nat) (fail : bool) : st * bool :=
  if fail then (pause s, true) else (if first then put_ck s c else put_dn s c, false).

Definition create (g : cfg) (s : st) (c : nat) (pfail wfail : bool) (cut : option nat) : st :=
  if is_cut cut 0 then die s
  else
    let f1 := ckpt_first g in
    let '(s1, stop1) := effect f1 s c (if f1 then pfail else wfail) in
    if stop1 then s1
    else if is_cut cut 1 then die s1
    else
      let '(s2, stop2) := effect (negb f1) s1 c (if f1 then wfail else pfail) in
      if stop2 then s2
      else if is_cut cut 2 then die s2 else s2.

(* a reader starts every collection of the catalog: from its checkpoint when there is one *)
Definition start_reader (s : st) : st :=
  {| cat := cat s; ck := ck s; dn := dn s; running := true; ev := true; dead := false;
     seeks := seeks s ++ map (fun c => (c, mem c (dn s), mem c (ck s))) (cat s) |}.

Definition step (g : cfg) (s : st) (l : label) : st :=
  match l with
  | LCreate c pfail wfail cut =>
      let s0 := with_cat s c in
      if dead s0 || negb (ev s0) then s0
      else if negb (running s0) then {| cat := cat s0; ck := ck s0; dn := dn s0; running := false; ev := false; dead := false; seeks := seeks s0 |}
      else create g s0 c pfail wfail cut
  | LPause => if dead s || negb (running s) then s else pause s
  | LResume => if dead s || running s then s else start_reader s
  | LRestart => start_reader s     (* ReloadTask starts every task, also a paused one *)
  end.

Definition init : st := {| cat := []; ck := []; dn := []; running := true; ev := true; dead := false; seeks := [] |}.
Fixpoint run (g : cfg) (s : st) (ls : list label) : st :=
  match ls with [] => s | l :: r => run g (step g s l) r end.

(* observation after every label: checkpoints, downstream creations, task state, the seeks so far *)
Definition obs := (list nat * list nat * bool * list (nat * bool * bool))%type.
Definition observe (s : st) : obs := (ck s, dn s, running s, seeks s).
Fixpoint trace (g : cfg) (s : st) (ls : list label) : list obs :=
  match ls with [] => [] | l :: r => let s' := step g s l in observe s' :: trace g s' r end.
