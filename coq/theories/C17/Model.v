(* C17 — executable model of core/meta/meta.go (ReplicateMeteImpl) over an api.ReplicateStore.
   Maps are total functions key -> option (the implementation's map iteration order is never
   observed); dumps are taken over the key universe of the case.  The model is the code *after*
   the two repairs recorded in known_findings.json (merge written back to memory, partition
   messages removed from memory, DropTS exact through the store's JSON). *)
From Coq Require Import List String NArith Bool.
From Verif Require Import Base.Util.
Import ListNotations.
Local Open Scope N_scope.

Record rec := { r_target : list string; r_ready : list string;
                r_db : string; r_coll : string; r_part : string; r_ts : N }.
Inductive kind := KColl | KPart.
Definition key := (string * string)%type.        (* task id, message id *)
Definition key_eqb (a b : key) := String.eqb (fst a) (fst b) && String.eqb (snd a) (snd b).

Record st := { memc : key -> option rec; memp : key -> option rec; store : key -> option (kind * rec) }.

Definition fupd {A} (m : key -> option A) (k : key) (v : option A) : key -> option A :=
  fun k' => if key_eqb k k' then v else m k'.

Definition init : st := {| memc := fun _ => None; memp := fun _ => None; store := fun _ => None |}.

(* lo.Union: keeps first occurrences *)
Fixpoint uniq (l : list string) (seen : list string) : list string :=
  match l with
  | [] => []
  | x :: r => if mem_str x seen then uniq r seen else x :: uniq r (x :: seen)
  end.
Definition union (a b : list string) : list string := uniq (a ++ b) [].

(* BaseTaskMsg.IsReady: equal lengths and equal after sorting = equal as multisets *)
Definition count_str (x : string) (l : list string) : nat := List.length (filter (String.eqb x) l).
Definition is_ready (target ready : list string) : bool :=
  Nat.eqb (List.length target) (List.length ready)
  && forallb (fun x => Nat.eqb (count_str x target) (count_str x ready)) (target ++ ready).

Inductive op :=
| Upd (k : kind) (task id : string) (r : rec)
| Remove (task id : string)
| Reload.                                 (* crash + NewReplicateMetaImpl over the same store *)

Definition mem_of (s : st) (k : kind) := match k with KColl => memc s | KPart => memp s end.
Definition set_mem (s : st) (k : kind) (m : key -> option rec) (sto : key -> option (kind * rec)) : st :=
  match k with
  | KColl => {| memc := m; memp := memp s; store := sto |}
  | KPart => {| memc := memc s; memp := m; store := sto |}
  end.

(* result: Some ready for an update, None otherwise *)
Definition step (s : st) (o : op) : st * option bool :=
  match o with
  | Upd k task id r =>
      let ky := (task, id) in
      match mem_of s k ky with
      | None => (set_mem s k (fupd (mem_of s k) ky (Some r)) (fupd (store s) ky (Some (k, r))),
                 Some (is_ready (r_target r) (r_ready r)))
      | Some old =>
          let new := {| r_target := r_target old; r_ready := union (r_ready old) (r_ready r);
                        r_db := r_db old; r_coll := r_coll old; r_part := r_part old; r_ts := r_ts old |} in
          (set_mem s k (fupd (mem_of s k) ky (Some new)) (fupd (store s) ky (Some (k, new))),
           Some (is_ready (r_target new) (r_ready new)))
      end
  | Remove task id =>
      let ky := (task, id) in
      ({| memc := fupd (memc s) ky None; memp := fupd (memp s) ky None; store := fupd (store s) ky None |}, None)
  | Reload =>
      ({| memc := fun ky => match store s ky with Some (KColl, r) => Some r | _ => None end;
          memp := fun ky => match store s ky with Some (KPart, r) => Some r | _ => None end;
          store := store s |}, None)
  end.

Definition run (ops : list op) : st := fold_left (fun s o => fst (step s o)) ops init.

(* ---- observation: after every op, the result and the dump of memory (both maps) and of the store
   over the key universe; ready/target lists are compared as sorted lists by the harness, here as sets
   through a canonical order given by the universe of channel names ---- *)
Record orec := { o_target : list string; o_ready : list string; o_db : string; o_coll : string; o_part : string; o_ts : N }.
Record obs := { ob_ret : option bool;
                ob_memc : list (option orec); ob_memp : list (option orec);
                ob_store : list (option (bool * orec)) }.     (* bool: true = partition message *)

Definition canon (chans : list string) (l : list string) : list string :=
  flat_map (fun c => repeat c (count_str c l)) chans.
Definition to_orec (chans : list string) (r : rec) : orec :=
  {| o_target := canon chans (r_target r); o_ready := canon chans (r_ready r);
     o_db := r_db r; o_coll := r_coll r; o_part := r_part r; o_ts := r_ts r |}.

Definition observe (chans : list string) (keys : list key) (s : st) (ret : option bool) : obs :=
  {| ob_ret := ret;
     ob_memc := map (fun k => option_map (to_orec chans) (memc s k)) keys;
     ob_memp := map (fun k => option_map (to_orec chans) (memp s k)) keys;
     ob_store := map (fun k => option_map (fun kr => (match fst kr with KPart => true | KColl => false end, to_orec chans (snd kr))) (store s k)) keys |}.

Fixpoint run_obs (chans : list string) (keys : list key) (s : st) (ops : list op) : list obs :=
  match ops with
  | [] => []
  | o :: r => let '(s1, ret) := step s o in observe chans keys s1 ret :: run_obs chans keys s1 r
  end.

(* an observation point may be missing (None): the harness ran that op concurrently with the next one *)
Record case := { c_chans : list string; c_keys : list key; c_ops : list op; c_obs : list (option obs) }.

Definition strs_eqb := list_eqb String.eqb.
Definition orec_eqb (a b : orec) : bool :=
  strs_eqb (o_target a) (o_target b) && strs_eqb (o_ready a) (o_ready b) && String.eqb (o_db a) (o_db b)
  && String.eqb (o_coll a) (o_coll b) && String.eqb (o_part a) (o_part b) && N.eqb (o_ts a) (o_ts b).
Definition obs_eqb (a b : obs) : bool :=
  option_eqb Bool.eqb (ob_ret a) (ob_ret b)
  && list_eqb (option_eqb orec_eqb) (ob_memc a) (ob_memc b)
  && list_eqb (option_eqb orec_eqb) (ob_memp a) (ob_memp b)
  && list_eqb (option_eqb (pair_eqb Bool.eqb orec_eqb)) (ob_store a) (ob_store b).

Fixpoint agree_list (ms : list obs) (os : list (option obs)) : bool :=
  match ms, os with
  | [], [] => true
  | m :: mr, o :: or => match o with None => true | Some o' => obs_eqb m o' end && agree_list mr or
  | _, _ => false
  end.
Definition agrees (c : case) : bool :=
  agree_list (run_obs (c_chans c) (c_keys c) init (c_ops c)) (c_obs c).

(* ---- the property as a checker over observations (independent of [step]) ---- *)
(* reports for a key since its last removal, and whether any exists *)
Fixpoint reports (ky : key) (ops : list op) (acc : option (list string * list string)) : option (list string * list string) :=
  match ops with
  | [] => acc
  | Upd _ t i r :: rest =>
      if key_eqb ky (t, i)
      then reports ky rest (Some (match acc with None => (r_target r, r_ready r) | Some (tg, rd) => (tg, rd ++ r_ready r) end))
      else reports ky rest acc
  | Remove t i :: rest => reports ky rest (if key_eqb ky (t, i) then None else acc)
  | Reload :: rest => reports ky rest acc
  end.

Definition same_set (chans a b : list string) : bool :=
  forallb (fun c => Bool.eqb (mem_str c a) (mem_str c b)) chans.

Definition mem_entry (o : obs) (i : nat) : option orec :=
  match nth i (ob_memc o) None with Some r => Some r | None => nth i (ob_memp o) None end.

(* after the prefix of ops ending at this observation: memory = store (entry by entry), the ready set
   is the union of the reports, present iff reported since the last removal, and an update's result is
   "union = target" *)
Definition check_point (chans : list string) (keys : list key) (prefix : list op) (o : obs) : bool :=
  forallb (fun ik =>
     let i := fst ik in let ky := snd ik in
     let m := mem_entry o i in
     let s := nth i (ob_store o) None in
     match reports ky prefix None, m, s with
     | None, None, None => true
     | Some (tg, rd), Some mr, Some (_, sr) =>
         orec_eqb mr sr && same_set chans (o_ready mr) rd && same_set chans (o_target mr) tg
     | _, _, _ => false
     end) (combine (seq 0 (List.length keys)) keys)
  && match last prefix Reload, ob_ret o with
     | Upd _ t i _, Some b =>
         match reports (t, i) prefix None with
         | Some (tg, rd) => Bool.eqb b (same_set chans tg rd)
         | None => false
         end
     | Upd _ _ _ _, None => false
     | _, _ => true
     end.

Fixpoint check_all (chans : list string) (keys : list key) (done todo : list op) (os : list (option obs)) : bool :=
  match todo, os with
  | [], [] => true
  | o :: r, ob :: obr =>
      match ob with None => true | Some ob' => check_point chans keys (done ++ [o]) ob' end
      && check_all chans keys (done ++ [o]) r obr
  | _, _ => false
  end.

Definition check_C17 (c : case) : bool := check_all (c_chans c) (c_keys c) [] (c_ops c) (c_obs c).

Definition mismatches (l : list (N * case)) : list N := failing_ids agrees l.
Definition checkfails (l : list (N * case)) : list N := failing_ids check_C17 l.
Definition knownclass (l : list (N * case)) : list (N * N) := [].
