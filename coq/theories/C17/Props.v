(* C17 — property theorems only *)
From Coq Require Import List String NArith Bool.
From Verif Require Import Base.Util C17.Model C17.Proofs.
Import ListNotations.

(* Histories: any list of shard reports (any task, message, order, duplicates), removals and
   crash+reload points.  Hypotheses: a message id is used for one kind only, and target / per-report
   ready lists are duplicate-free. *)

(* memory and store agree entry by entry after every history *)
Theorem C17_memory_equals_store : forall ops, kinds_consistent ops -> wf_ops ops ->
  forall ky, store (run ops) ky = store_of (run ops) ky
             /\ (memc (run ops) ky = None \/ memp (run ops) ky = None).
Proof. exact mem_store_agree. Qed.
Print Assumptions C17_memory_equals_store.

(* the recorded ready set is the union of all reports since the last removal; absent iff none *)
Theorem C17_ready_is_union : forall ops, kinds_consistent ops -> wf_ops ops -> forall ky,
  match reports ky ops None with
  | None => memc (run ops) ky = None /\ memp (run ops) ky = None /\ store (run ops) ky = None
  | Some (tg, rd) => exists k r, mem_of (run ops) k ky = Some r /\ store (run ops) ky = Some (k, r)
                                 /\ r_target r = tg /\ (forall x, In x (r_ready r) <-> In x rd)
                                 /\ NoDup (r_ready r) /\ NoDup (r_target r)
  end.
Proof. exact ready_is_union. Qed.
Print Assumptions C17_ready_is_union.

(* an update answers "ready" exactly when that union equals the target set *)
Theorem C17_ready_iff : forall ops k t i r,
  kinds_consistent (ops ++ [Upd k t i r]) -> wf_ops (ops ++ [Upd k t i r]) ->
  exists b tg rd, snd (step (run ops) (Upd k t i r)) = Some b
    /\ reports (t, i) (ops ++ [Upd k t i r]) None = Some (tg, rd)
    /\ (b = true <-> (forall x, In x tg <-> In x rd)).
Proof. exact update_result. Qed.
Print Assumptions C17_ready_iff.

(* removal clears store and both memory maps for that message and nothing else *)
Theorem C17_remove_both : forall s t i,
  let s' := fst (step s (Remove t i)) in
  memc s' (t, i) = None /\ memp s' (t, i) = None /\ store s' (t, i) = None
  /\ (forall ky, ky <> (t, i) -> memc s' ky = memc s ky /\ memp s' ky = memp s ky /\ store s' ky = store s ky).
Proof. exact remove_both. Qed.
Print Assumptions C17_remove_both.

(* a reload (crash + new instance over the same store) reproduces the in-memory state *)
Theorem C17_reload_identity : forall ops, kinds_consistent ops -> wf_ops ops ->
  let s := run ops in let s' := fst (step s Reload) in
  forall ky, memc s' ky = memc s ky /\ memp s' ky = memp s ky /\ store s' ky = store s ky.
Proof. exact reload_id. Qed.
Print Assumptions C17_reload_identity.

Definition ex_rec (rd : string) : rec :=
  {| r_target := ["a"; "b"; "c"]%string; r_ready := [rd]; r_db := "db"; r_coll := "c"; r_part := ""; r_ts := 449999999999999999%N |}.
Example C17_nonvacuous :
  let ops := [Upd KColl "t" "m" (ex_rec "a"); Upd KColl "t" "m" (ex_rec "c"); Upd KColl "t" "m" (ex_rec "a")]%string in
  snd (step (run ops) (Upd KColl "t" "m" (ex_rec "b"))) = Some true
  /\ option_map r_ready (memc (run ops) ("t", "m")%string) = Some ["a"; "c"]%string.
Proof. vm_compute. split; reflexivity. Qed.
