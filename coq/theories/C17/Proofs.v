(* C17 — proofs about the ReplicateMeta model *)
From Coq Require Import List String NArith Bool Lia Arith.
From Verif Require Import Base.Util C17.Model.
Import ListNotations.

Lemma key_eqb_spec a b : reflect (a = b) (key_eqb a b).
Proof.
  destruct a as [a1 a2], b as [b1 b2]. unfold key_eqb; cbn.
  destruct (String.eqb_spec a1 b1), (String.eqb_spec a2 b2); cbn; constructor; congruence.
Qed.

Lemma fupd_same {A} (m : key -> option A) k v : fupd m k v k = v.
Proof. unfold fupd. destruct (key_eqb_spec k k); congruence. Qed.
Lemma fupd_other {A} (m : key -> option A) k k' v : k <> k' -> fupd m k v k' = m k'.
Proof. unfold fupd. destruct (key_eqb_spec k k'); congruence. Qed.

(* ---- union ---- *)
Lemma mem_str_In x l : mem_str x l = true <-> In x l.
Proof.
  unfold mem_str. rewrite existsb_exists. split.
  - intros [y [Hy E]]. apply String.eqb_eq in E. now subst.
  - intros H. exists x. split; [exact H|apply String.eqb_refl].
Qed.

Lemma uniq_In l : forall seen x, In x (uniq l seen) <-> In x l /\ ~ In x seen.
Proof.
  induction l as [|y r IH]; intros seen x; cbn; [tauto|].
  destruct (mem_str y seen) eqn:E.
  - apply mem_str_In in E. rewrite IH. split; [tauto|]. intros [[->|H] N]; tauto.
  - assert (~ In y seen) as Ny by (intros H; apply mem_str_In in H; congruence).
    cbn. rewrite IH. cbn. split.
    + intros [->|[H N]]; [tauto|]. split; [tauto|]. intros H'. apply N. right; exact H'.
    + intros [[->|H] N]; [tauto|]. destruct (string_dec y x) as [->|Ne]; [tauto|]. right. split; [exact H|]. intros [E'|H']; tauto.
Qed.

Lemma uniq_NoDup l : forall seen, NoDup (uniq l seen).
Proof.
  induction l as [|y r IH]; intros seen; cbn; [constructor|].
  destruct (mem_str y seen); [apply IH|]. constructor; [|apply IH].
  rewrite uniq_In. cbn. tauto.
Qed.

Lemma union_In a b x : In x (union a b) <-> In x a \/ In x b.
Proof. unfold union. rewrite uniq_In, in_app_iff. cbn. tauto. Qed.
Lemma union_NoDup a b : NoDup (union a b).
Proof. apply uniq_NoDup. Qed.

(* ---- is_ready is set equality on duplicate-free lists ---- *)
Lemma count_str_In x l : (0 < count_str x l)%nat <-> In x l.
Proof.
  unfold count_str. induction l as [|y r IH]; cbn; [lia|].
  destruct (String.eqb_spec x y) as [->|Ne]; cbn; [intuition lia|]. rewrite IH. intuition congruence.
Qed.
Lemma count_str_NoDup x l : NoDup l -> (count_str x l <= 1)%nat.
Proof.
  unfold count_str. induction 1 as [|y r Hy Hn IH]; cbn; [lia|].
  destruct (String.eqb_spec x y) as [->|Ne]; cbn; [|exact IH].
  assert (~ (0 < count_str y r)%nat) by (rewrite count_str_In; exact Hy). unfold count_str in *. lia.
Qed.

Lemma NoDup_incl_length_str (a b : list string) : NoDup a -> incl a b -> (List.length a <= List.length b)%nat.
Proof. apply NoDup_incl_length. Qed.

Lemma ready_iff tg rd : NoDup tg -> NoDup rd ->
  (is_ready tg rd = true <-> (forall x, In x tg <-> In x rd)).
Proof.
  intros Nt Nr. unfold is_ready. rewrite andb_true_iff, Nat.eqb_eq, forallb_forall. split.
  - intros [_ H] x. split; intros Hx.
    + specialize (H x (in_or_app _ _ _ (or_introl Hx))). apply Nat.eqb_eq in H.
      apply count_str_In. rewrite <- H. apply count_str_In. exact Hx.
    + specialize (H x (in_or_app _ _ _ (or_intror Hx))). apply Nat.eqb_eq in H.
      apply count_str_In. rewrite H. apply count_str_In. exact Hx.
  - intros H. split.
    + apply Nat.le_antisymm; apply NoDup_incl_length; auto; intros x Hx; apply H; exact Hx.
    + intros x _. apply Nat.eqb_eq.
      pose proof (count_str_NoDup x tg Nt). pose proof (count_str_NoDup x rd Nr).
      pose proof (count_str_In x tg). pose proof (count_str_In x rd). specialize (H x).
      destruct (count_str x tg) as [|[|n]], (count_str x rd) as [|[|m]]; try lia; exfalso; intuition lia.
Qed.

(* ---- history ---- *)
Definition racc := option (list string * list string).
Definition rstep (ky : key) (acc : racc) (o : op) : racc :=
  match o with
  | Upd _ t i r => if key_eqb ky (t, i)
                   then Some (match acc with None => (r_target r, r_ready r) | Some (tg, rd) => (tg, rd ++ r_ready r) end)
                   else acc
  | Remove t i => if key_eqb ky (t, i) then None else acc
  | Reload => acc
  end.

Lemma reports_snoc ky h o : forall acc, reports ky (h ++ [o]) acc = rstep ky (reports ky h acc) o.
Proof.
  induction h as [|x r IH]; intros acc; cbn.
  - destruct o as [k t i rr|t i|]; cbn; try reflexivity; destruct (key_eqb ky (t, i)); reflexivity.
  - destruct x as [k t i rr|t i|]; cbn; try apply IH; destruct (key_eqb ky (t, i)); apply IH.
Qed.

Definition kinds_consistent (h : list op) : Prop :=
  forall k1 k2 t i r1 r2, In (Upd k1 t i r1) h -> In (Upd k2 t i r2) h -> k1 = k2.

Definition wf_ops (h : list op) : Prop :=
  forall k t i r, In (Upd k t i r) h -> NoDup (r_target r) /\ NoDup (r_ready r).

Definition store_of (s : st) (ky : key) : option (kind * rec) :=
  match memc s ky, memp s ky with
  | Some r, _ => Some (KColl, r)
  | None, Some r => Some (KPart, r)
  | None, None => None
  end.

Record Inv (s : st) (h : list op) : Prop := {
  inv_excl : forall ky, memc s ky = None \/ memp s ky = None;
  inv_store : forall ky, store s ky = store_of s ky;
  inv_hist : forall ky,
    match reports ky h None with
    | None => memc s ky = None /\ memp s ky = None
    | Some (tg, rd) => exists k r r0, mem_of s k ky = Some r /\ In (Upd k (fst ky) (snd ky) r0) h
                                     /\ r_target r = tg /\ (forall x, In x (r_ready r) <-> In x rd)
                                     /\ NoDup (r_ready r) /\ NoDup (r_target r)
    end }.

Lemma inv_init : Inv init [].
Proof. constructor; cbn; auto. Qed.

Lemma other_kind_none s h k ky r : Inv s h -> kinds_consistent h ->
  mem_of s k ky = Some r -> forall k', k' <> k -> mem_of s k' ky = None.
Proof.
  intros I _ H k' Ne. destruct (inv_excl _ _ I ky) as [E|E]; destruct k, k'; cbn in *; congruence.
Qed.

Lemma Inv_excl_kind s ky k1 k2 r1 r2 : (exists h, Inv s h) ->
  mem_of s k1 ky = Some r1 -> mem_of s k2 ky = Some r2 -> k2 = k1.
Proof.
  intros [h I] H1 H2. destruct (inv_excl _ _ I ky) as [E|E]; destruct k1, k2; cbn in *; congruence.
Qed.

Lemma step_inv s h o : kinds_consistent (h ++ [o]) -> wf_ops (h ++ [o]) -> Inv s h -> Inv (fst (step s o)) (h ++ [o]).
Proof.
  intros KC WF I.
  assert (KCh : kinds_consistent h).
  { intros k1 k2 t i r1 r2 H1 H2. eapply KC; apply in_or_app; left; eassumption. }
  destruct o as [k t i r|t i|].
  - (* Upd *)
    set (ky0 := (t, i)).
    assert (Hother : forall k', k' <> k -> mem_of s k' ky0 = None).
    { intros k' Ne. pose proof (inv_hist _ _ I ky0) as Hh.
      destruct (reports ky0 h None) as [[tg rd]|].
      - destruct Hh as (k1 & r1 & r0 & Hm & Hin & _).
        assert (k1 = k). { eapply KC; [apply in_or_app; left; exact Hin | apply in_or_app; right; left; reflexivity]. }
        subst k1. eapply other_kind_none; eauto.
      - destruct Hh as [Hc Hp]. destruct k'; assumption. }
    cbn [step]. fold ky0.
    destruct (mem_of s k ky0) as [old|] eqn:Hold; cbn [fst].
    + set (new := {| r_target := r_target old; r_ready := union (r_ready old) (r_ready r);
                     r_db := r_db old; r_coll := r_coll old; r_part := r_part old; r_ts := r_ts old |}).
      constructor.
      * intros ky. destruct (key_eqb_spec ky0 ky) as [<-|Ne].
        -- destruct k; cbn; rewrite ?fupd_same.
           ++ right. apply (Hother KPart). discriminate.
           ++ left. apply (Hother KColl). discriminate.
        -- destruct k; cbn; rewrite ?fupd_other by exact Ne; apply (inv_excl _ _ I).
      * intros ky. unfold store_of. destruct (key_eqb_spec ky0 ky) as [<-|Ne].
        -- destruct k; cbn; rewrite !fupd_same; [reflexivity|].
           pose proof (Hother KColl ltac:(discriminate)) as Hc0. cbn in Hc0. rewrite Hc0. reflexivity.
        -- destruct k; cbn; rewrite !fupd_other by exact Ne; apply (inv_store _ _ I).
      * intros ky. rewrite reports_snoc. cbn [rstep]. fold ky0. pose proof (inv_hist _ _ I ky) as Hh.
        destruct (key_eqb_spec ky ky0) as [->|Ne].
        -- destruct (reports ky0 h None) as [[tg rd]|].
           ++ destruct Hh as (k1 & r1 & r0 & Hm & Hin & Ht & Hr & Hnd).
              assert (k1 = k). { eapply KC; [apply in_or_app; left; exact Hin | apply in_or_app; right; left; reflexivity]. }
              subst k1. rewrite Hold in Hm. injection Hm as <-.
              exists k, new, r. repeat split.
              ** destruct k; cbn; apply fupd_same.
              ** apply in_or_app; right; left; reflexivity.
              ** exact Ht.
              ** cbn. rewrite union_In, in_app_iff, Hr. tauto.
              ** cbn. rewrite union_In, in_app_iff, Hr. tauto.
              ** apply union_NoDup.
              ** cbn. tauto.
           ++ destruct Hh as [Hc Hp]. destruct k; cbn in Hold; congruence.
        -- assert (ky0 <> ky) by congruence.
           destruct (reports ky h None) as [[tg rd]|].
           ++ destruct Hh as (k1 & r1 & r0 & Hm & Hin & Ht & Hr & Hn). exists k1, r1, r0. repeat split; auto.
              ** destruct k, k1; cbn in *; rewrite ?fupd_other by assumption; exact Hm.
              ** apply in_or_app; left; exact Hin.
              ** apply Hr. ** apply Hr.
              ** apply Hn. ** apply Hn.
           ++ destruct Hh as [Hc Hp]. destruct k; cbn; rewrite ?fupd_other by assumption; auto.
    + constructor.
      * intros ky. destruct (key_eqb_spec ky0 ky) as [<-|Ne].
        -- destruct k; cbn; rewrite ?fupd_same.
           ++ right. apply (Hother KPart). discriminate.
           ++ left. apply (Hother KColl). discriminate.
        -- destruct k; cbn; rewrite ?fupd_other by exact Ne; apply (inv_excl _ _ I).
      * intros ky. unfold store_of. destruct (key_eqb_spec ky0 ky) as [<-|Ne].
        -- destruct k; cbn; rewrite !fupd_same; [reflexivity|].
           pose proof (Hother KColl ltac:(discriminate)) as Hc0. cbn in Hc0. rewrite Hc0. reflexivity.
        -- destruct k; cbn; rewrite !fupd_other by exact Ne; apply (inv_store _ _ I).
      * intros ky. rewrite reports_snoc. cbn [rstep]. fold ky0. pose proof (inv_hist _ _ I ky) as Hh.
        destruct (key_eqb_spec ky ky0) as [->|Ne].
        -- destruct (reports ky0 h None) as [[tg rd]|].
           ++ destruct Hh as (k1 & r1 & r0 & Hm & Hin & _).
              assert (k1 = k). { eapply KC; [apply in_or_app; left; exact Hin | apply in_or_app; right; left; reflexivity]. }
              subst k1. congruence.
           ++ assert (In (Upd k t i r) (h ++ [Upd k t i r])) as Hin0 by (apply in_or_app; right; left; reflexivity).
              exists k, r, r. repeat split; auto.
              ** destruct k; cbn; apply fupd_same.
              ** apply (WF _ _ _ _ Hin0).
              ** apply (WF _ _ _ _ Hin0).
        -- assert (ky0 <> ky) by congruence.
           destruct (reports ky h None) as [[tg rd]|].
           ++ destruct Hh as (k1 & r1 & r0 & Hm & Hin & Ht & Hr & Hn). exists k1, r1, r0. repeat split; auto.
              ** destruct k, k1; cbn in *; rewrite ?fupd_other by assumption; exact Hm.
              ** apply in_or_app; left; exact Hin.
              ** apply Hr. ** apply Hr.
              ** apply Hn. ** apply Hn.
           ++ destruct Hh as [Hc Hp]. destruct k; cbn; rewrite ?fupd_other by assumption; auto.
  - (* Remove *)
    set (ky0 := (t, i)). cbn [step fst]. fold ky0. constructor.
    + intros ky. cbn. destruct (key_eqb_spec ky0 ky) as [<-|Ne]; [left; apply fupd_same|].
      rewrite !fupd_other by exact Ne. apply (inv_excl _ _ I).
    + intros ky. unfold store_of. cbn. destruct (key_eqb_spec ky0 ky) as [<-|Ne].
      * rewrite !fupd_same. reflexivity.
      * rewrite !fupd_other by exact Ne. apply (inv_store _ _ I).
    + intros ky. rewrite reports_snoc. cbn [rstep]. fold ky0. pose proof (inv_hist _ _ I ky) as Hh.
      destruct (key_eqb_spec ky ky0) as [->|Ne].
      * cbn. rewrite !fupd_same. auto.
      * assert (ky0 <> ky) by congruence.
        destruct (reports ky h None) as [[tg rd]|].
        -- destruct Hh as (k1 & r1 & r0 & Hm & Hin & Ht & Hr & Hn). exists k1, r1, r0. repeat split; auto.
           ++ destruct k1; cbn in *; rewrite ?fupd_other by assumption; exact Hm.
           ++ apply in_or_app; left; exact Hin.
           ++ apply Hr. ++ apply Hr.
           ++ apply Hn. ++ apply Hn.
        -- cbn. rewrite !fupd_other by assumption. exact Hh.
  - (* Reload *)
    cbn [step fst].
    assert (Ec : forall ky, match store s ky with Some (KColl, r) => Some r | _ => None end = memc s ky).
    { intros ky. rewrite (inv_store _ _ I). unfold store_of.
      destruct (inv_excl _ _ I ky) as [E|E]; rewrite E; destruct (memc s ky), (memp s ky); congruence. }
    assert (Ep : forall ky, match store s ky with Some (KPart, r) => Some r | _ => None end = memp s ky).
    { intros ky. rewrite (inv_store _ _ I). unfold store_of.
      destruct (inv_excl _ _ I ky) as [E|E]; rewrite E; destruct (memc s ky), (memp s ky); congruence. }
    constructor.
    + intros ky. cbn. rewrite Ec, Ep. apply (inv_excl _ _ I).
    + intros ky. unfold store_of. cbn. rewrite Ec, Ep. apply (inv_store _ _ I).
    + intros ky. rewrite reports_snoc. cbn [rstep]. pose proof (inv_hist _ _ I ky) as Hh.
      destruct (reports ky h None) as [[tg rd]|].
      * destruct Hh as (k1 & r1 & r0 & Hm & Hin & Ht & Hr & Hn). exists k1, r1, r0. repeat split; auto.
        -- destruct k1; cbn in *; rewrite ?Ec, ?Ep; exact Hm.
        -- apply in_or_app; left; exact Hin.
        -- apply Hr. -- apply Hr.
        -- apply Hn. -- apply Hn.
      * cbn. rewrite Ec, Ep. exact Hh.
Qed.

Lemma run_snoc ops o : run (ops ++ [o]) = fst (step (run ops) o).
Proof. unfold run. rewrite fold_left_app. reflexivity. Qed.

Lemma kinds_consistent_prefix a b : kinds_consistent (a ++ b) -> kinds_consistent a.
Proof. intros KC k1 k2 t i r1 r2 H1 H2. eapply KC; apply in_or_app; left; eassumption. Qed.

Lemma wf_ops_prefix a b : wf_ops (a ++ b) -> wf_ops a.
Proof. intros W k t i r H. apply (W k t i r). apply in_or_app; left; exact H. Qed.

Lemma run_inv ops : kinds_consistent ops -> wf_ops ops -> Inv (run ops) ops.
Proof.
  induction ops as [|o r IH] using rev_ind; intros KC W; [apply inv_init|].
  rewrite run_snoc. apply step_inv; [exact KC|exact W|].
  apply IH; [eapply kinds_consistent_prefix; exact KC|eapply wf_ops_prefix; exact W].
Qed.

(* ---- the statements used in Props.v ---- *)
Lemma mem_store_agree ops : kinds_consistent ops -> wf_ops ops ->
  forall ky, store (run ops) ky = store_of (run ops) ky
             /\ (memc (run ops) ky = None \/ memp (run ops) ky = None).
Proof. intros KC W ky. pose proof (run_inv ops KC W) as I. split; [apply (inv_store _ _ I)|apply (inv_excl _ _ I)]. Qed.

Lemma ready_is_union ops : kinds_consistent ops -> wf_ops ops -> forall ky,
  match reports ky ops None with
  | None => memc (run ops) ky = None /\ memp (run ops) ky = None /\ store (run ops) ky = None
  | Some (tg, rd) => exists k r, mem_of (run ops) k ky = Some r /\ store (run ops) ky = Some (k, r)
                                 /\ r_target r = tg /\ (forall x, In x (r_ready r) <-> In x rd)
                                 /\ NoDup (r_ready r) /\ NoDup (r_target r)
  end.
Proof.
  intros KC W ky. pose proof (run_inv ops KC W) as I. pose proof (inv_hist _ _ I ky) as Hh.
  destruct (reports ky ops None) as [[tg rd]|].
  - destruct Hh as (k & r & r0 & Hm & _ & Ht & Hr & Hn1 & Hn2). exists k, r. repeat split; auto; try apply Hr.
    rewrite (inv_store _ _ I). unfold store_of.
    destruct k; cbn in Hm; rewrite Hm; [reflexivity|].
    destruct (inv_excl _ _ I ky) as [E|E]; [rewrite E; reflexivity|congruence].
  - destruct Hh as [Hc Hp]. repeat split; auto. rewrite (inv_store _ _ I). unfold store_of. now rewrite Hc, Hp.
Qed.

Lemma step_upd_result s k t i r :
  exists r', mem_of (fst (step s (Upd k t i r))) k (t, i) = Some r'
             /\ snd (step s (Upd k t i r)) = Some (is_ready (r_target r') (r_ready r')).
Proof.
  cbn [step]. destruct (mem_of s k (t, i)) as [old|]; cbn [fst snd];
    eexists; (split; [destruct k; cbn; apply fupd_same|reflexivity]).
Qed.

(* the answer of an update is "union of the reports since the last removal = target set" *)
Lemma update_result ops k t i r : kinds_consistent (ops ++ [Upd k t i r]) -> wf_ops (ops ++ [Upd k t i r]) ->
  exists b tg rd, snd (step (run ops) (Upd k t i r)) = Some b
    /\ reports (t, i) (ops ++ [Upd k t i r]) None = Some (tg, rd)
    /\ (b = true <-> (forall x, In x tg <-> In x rd)).
Proof.
  intros KC W. pose proof (ready_is_union _ KC W (t, i)) as H.
  destruct (step_upd_result (run ops) k t i r) as (r' & Hm & Hres).
  rewrite run_snoc in H.
  destruct (reports (t, i) (ops ++ [Upd k t i r]) None) as [[tg rd]|] eqn:E.
  - destruct H as (k1 & r1 & Hm1 & _ & Ht & Hr & Hn1 & Hn2).
    assert (k1 = k).
    { apply (Inv_excl_kind (fst (step (run ops) (Upd k t i r))) (t, i) k k1 r' r1); auto.
      exists (ops ++ [Upd k t i r]). rewrite <- run_snoc. apply run_inv; assumption. }
    subst k1. rewrite Hm in Hm1. injection Hm1 as <-.
    exists (is_ready (r_target r') (r_ready r')), tg, rd. split; [exact Hres|]. split; [reflexivity|]. split.
    + intros Hb y. pose proof (proj1 (ready_iff _ _ Hn2 Hn1) Hb) as Hb'. rewrite <- Ht, <- Hr. apply Hb'.
    + intros Hx. apply (proj2 (ready_iff _ _ Hn2 Hn1)). intros y. rewrite Ht, Hr. apply Hx.
  - destruct H as (Hc & Hp & _). destruct k; unfold mem_of in Hm; congruence.
Qed.

Lemma remove_both s t i :
  let s' := fst (step s (Remove t i)) in
  memc s' (t, i) = None /\ memp s' (t, i) = None /\ store s' (t, i) = None
  /\ (forall ky, ky <> (t, i) -> memc s' ky = memc s ky /\ memp s' ky = memp s ky /\ store s' ky = store s ky).
Proof.
  cbn. rewrite !fupd_same. repeat split; auto; rewrite fupd_other; congruence.
Qed.

(* reloading from the store reproduces the in-memory state (and leaves the store alone) *)
Lemma reload_id ops : kinds_consistent ops -> wf_ops ops ->
  let s := run ops in let s' := fst (step s Reload) in
  forall ky, memc s' ky = memc s ky /\ memp s' ky = memp s ky /\ store s' ky = store s ky.
Proof.
  intros KC W s s' ky. pose proof (run_inv ops KC W) as I. subst s s'. cbn.
  rewrite (inv_store _ _ I). unfold store_of.
  destruct (inv_excl _ _ I ky) as [E|E]; rewrite E; destruct (memc (run ops) ky), (memp (run ops) ky); repeat split; congruence.
Qed.
