// h_reader: drives the real replicateChannelManager (seam L1): collections are started, partitions added and
// source packs handed to the per-shard streams through a fake dispatcher; the packs arriving on the downstream
// channel queues and the API events are recorded.  Completion of each pack is observed through hook H3 ("done").
// Modes: c01 / c02 / c03 / c04 choose the Coq checker the cases are evaluated with; the generated scripts are the
// same family with different emphasis (see the rule strings in bin/props_conf.py).
package main

import (
	"context"
	"flag"
	"fmt"
	"reflect"
	"sort"
	"strings"
	"sync"
	"sync/atomic"
	"time"

	"github.com/milvus-io/milvus-proto/go-api/v2/commonpb"
	"github.com/milvus-io/milvus-proto/go-api/v2/msgpb"
	"github.com/milvus-io/milvus-proto/go-api/v2/schemapb"
	"github.com/milvus-io/milvus/pkg/mq/msgstream"
	"github.com/sasha-s/go-deadlock"

	"github.com/zilliztech/milvus-cdc/core/api"
	"github.com/zilliztech/milvus-cdc/core/config"
	"github.com/zilliztech/milvus-cdc/core/meta"
	"github.com/zilliztech/milvus-cdc/core/model"
	"github.com/zilliztech/milvus-cdc/core/pb"
	"github.com/zilliztech/milvus-cdc/core/reader"
	"github.com/zilliztech/milvus-cdc/core/util"

	"verifharness/lib/cq"
	"verifharness/lib/hx"
	"verifharness/lib/rfake"
)

var mode = flag.String("mode", "c01", "c01|c02|c03|c04|c06|c03s|c16m")

// ---------------------------------------------------------------- script
type coll struct {
	id, tid  int64
	name     string
	src, tgt [][2]string // (vchannel, pchannel)
	parts    map[string]int64
	dropped  bool
	waitv    map[string]bool // source virtual channels whose handler waits for a downstream channel when the collection is started
}

type smsg struct {
	kind  string // insert delete dropcoll droppart createcoll createpart tick other
	id    uint64
	coll  int64
	part  int64
	pname string
	ts    uint64
	rows  int
	// the source position names the physical channel (as Milvus' own positions do) instead of the virtual one
	pospch bool
}

type label struct {
	kind    string // start addpart feed mark stop
	c       *coll
	pid     int64
	pname   string
	spch    string
	svch    string
	begin   uint64
	end     uint64
	nstart  int
	msgs    []smsg
	answers []map[string]int64 // nil entry = failure
	ids     []int64
	ns, nt  int    // config: the channel counts the manager is created with
	wakes   []string // start: virtual channels of a waiting handler that start reading because this collection forwards a channel
	point   string // park: the scheduling point (max | lock | send) the pack is held at; resume: spch names the handler
}

// ---------------------------------------------------------------- sync
type done struct {
	point string
	pack  *msgstream.MsgPack
}

var doneCh = make(chan done, 1024)

// schedule control (mode c03s): a pack registered here is held at its scheduling point until it is released
var (
	parkMu   sync.Mutex
	parkAt   = map[*msgstream.MsgPack]string{}
	release  = map[*msgstream.MsgPack]chan struct{}{}
	parkedCh = make(chan *msgstream.MsgPack, 16)
)

// schedule control of the channel manager (mode c16m, hook H9): waiting handlers are held between their receive and the manager lock
var (
	waitHold    atomic.Bool
	waitParked  = make(chan struct{}, 16)
	waitRelease chan struct{}
)

func yieldHook(point string, pack *msgstream.MsgPack) {
	if point == "wait-recv" {
		if waitHold.Load() {
			rel := waitRelease
			waitParked <- struct{}{}
			<-rel
		}
		return
	}
	if point == "done" {
		select {
		case doneCh <- done{point, pack}:
		default:
		}
		return
	}
	parkMu.Lock()
	at, ok := parkAt[pack]
	rel := release[pack]
	parkMu.Unlock()
	if ok && at == point {
		parkedCh <- pack
		<-rel
	}
}

func kindCoq(k string) string {
	return map[string]string{"insert": "KInsert", "delete": "KDelete", "dropcoll": "KDropColl", "droppart": "KDropPart",
		"createcoll": "KCreateColl", "createpart": "KCreatePart", "tick": "KTick", "other": "KOther", "import": "KImport"}[k]
}

func pmapCoq(m map[string]int64) string {
	var ks []string
	for k := range m {
		ks = append(ks, k)
	}
	sort.Strings(ks)
	var o []string
	for _, k := range ks {
		o = append(o, cq.Pair(cq.Str(k), cq.Z(m[k])))
	}
	return cq.List(o)
}

func pairsCoq(l [][2]string) string {
	var o []string
	for _, p := range l {
		o = append(o, cq.Pair(cq.Str(p[0]), cq.Str(p[1])))
	}
	return cq.List(o)
}

// clabelCoq: the label of a schedule-controlled case (Reader/Conc.v)
func clabelCoq(l label) string {
	switch l.kind {
	case "park":
		f := labelCoq(label{kind: "feed", c: l.c, spch: l.spch, svch: l.svch, begin: l.begin, end: l.end, nstart: l.nstart, msgs: l.msgs, answers: l.answers})
		pt := map[string]string{"max": "PMax", "lock": "PLock", "send": "PSend"}[l.point]
		return "(CPark " + strings.TrimSuffix(strings.TrimPrefix(f, "(Feed "), ")") + " " + pt + ")"
	case "resume":
		return cq.App("CResume", cq.Str(l.spch))
	}
	return "(CSeq " + labelCoq(l) + ")"
}

func labelCoq(l label) string {
	switch l.kind {
	case "config":
		return fmt.Sprintf("(Config %s %s)", cq.Ni(l.ns), cq.Ni(l.nt))
	case "start":
		return fmt.Sprintf("(StartColl {| ci_id := %s; ci_name := %s; ci_tid := %s; ci_src := %s; ci_tgt := %s; ci_parts := %s; ci_dropped := %s |})",
			cq.Z(l.c.id), cq.Str(l.c.name), cq.Z(l.c.tid), pairsCoq(l.c.src), pairsCoq(l.c.tgt), pmapCoq(l.c.parts), cq.Bool(l.c.dropped))
	case "addpart":
		return fmt.Sprintf("(AddPart %s %s %s false)", cq.Z(l.c.id), cq.Z(l.pid), cq.Str(l.pname))
	case "feed":
		var ms []string
		for _, m := range l.msgs {
			ms = append(ms, fmt.Sprintf("{| m_kind := %s; m_id := %s; m_coll := %s; m_part := %s; m_pname := %s; m_ts := %s; m_rows := %d%%nat; m_pospch := %s |}",
				kindCoq(m.kind), cq.N(m.id), cq.Z(m.coll), cq.Z(m.part), cq.Str(m.pname), cq.N(m.ts), m.rows, cq.Bool(m.pospch)))
		}
		var starts []string
		for i := 0; i < l.nstart; i++ {
			starts = append(starts, cq.N(l.begin))
		}
		var ans []string
		for _, a := range l.answers {
			if a == nil {
				ans = append(ans, "None")
			} else {
				ans = append(ans, cq.Some(pmapCoq(a)))
			}
		}
		return fmt.Sprintf("(Feed %s %s %s {| p_begin := %s; p_end := %s; p_starts := %s; p_msgs := %s |} %s)",
			cq.Z(l.c.id), cq.Str(l.c.name), cq.Str(l.spch), cq.N(l.begin), cq.N(l.end), cq.List(starts), cq.List(ms), cq.List(ans))
	case "mark":
		var o []string
		for _, x := range l.ids {
			o = append(o, cq.Z(x))
		}
		return fmt.Sprintf("(MarkDropped %s)", cq.List(o))
	}
	var sp []string
	for _, p := range l.c.src {
		sp = append(sp, cq.Str(p[1]))
	}
	return fmt.Sprintf("(StopColl %s %s)", cq.Z(l.c.id), cq.List(sp))
}

// ---------------------------------------------------------------- one case
type sys struct {
	mgr    api.ChannelManager
	disp   *rfake.Dispatch
	target *rfake.Target
	ctx    context.Context
	rid    string
	tpchs  map[string]bool
	src    map[uint64]msgstream.TsMsg // source message by harness id (a deep copy taken before feeding)
	out    []string
	events []string
	outAt  []string
	evAt   []string
	cur    int
	held   map[string]*msgstream.MsgPack // parked packs by source channel
}

func build(m smsg, svch string, c *coll) msgstream.TsMsg {
	switch m.kind {
	case "insert":
		return rfake.Insert(m.id, m.ts, svch, m.coll, m.part, m.pname, c.name, m.rows)
	case "delete":
		return rfake.Delete(m.id, m.ts, svch, m.coll, m.part, m.pname, c.name, m.rows)
	case "droppart":
		return rfake.DropPartition(m.id, m.ts, svch, m.coll, m.part, m.pname, c.name)
	case "dropcoll":
		return rfake.DropCollection(m.id, m.ts, svch, m.coll, c.name)
	case "import":
		ids := make([]int64, m.rows)
		for i := range ids {
			ids[i] = m.coll*100 + int64(i)
		}
		return rfake.Import(m.id, m.ts, svch, m.coll, ids, c.name)
	case "createpart":
		return rfake.CreatePartition(m.id, m.ts, svch, m.coll, m.part, m.pname, c.name)
	case "createcoll":
		return rfake.CreateCollection(m.id, m.ts, svch, m.coll, c.name)
	case "tick":
		return rfake.Tick(m.ts, svch)
	}
	return rfake.Flush(m.id, m.ts, svch, m.coll)
}

// payloadSame: rows, primary keys, row ids, row count and the partition name are those of the source message
func payloadSame(a, b msgstream.TsMsg) bool {
	switch x := a.(type) {
	case *msgstream.InsertMsg:
		y, ok := b.(*msgstream.InsertMsg)
		return ok && reflect.DeepEqual(x.RowIDs, y.RowIDs) && x.NumRows == y.NumRows && x.PartitionName == y.PartitionName &&
			x.CollectionName == y.CollectionName && x.DbName == y.DbName && fmt.Sprint(x.FieldsData) == fmt.Sprint(y.FieldsData)
	case *msgstream.DeleteMsg:
		y, ok := b.(*msgstream.DeleteMsg)
		return ok && fmt.Sprint(x.PrimaryKeys) == fmt.Sprint(y.PrimaryKeys) && x.NumRows == y.NumRows && x.PartitionName == y.PartitionName &&
			x.CollectionName == y.CollectionName
	case *msgstream.DropPartitionMsg:
		y, ok := b.(*msgstream.DropPartitionMsg)
		return ok && x.PartitionName == y.PartitionName && x.CollectionName == y.CollectionName && x.DbName == y.DbName
	case *msgstream.DropCollectionMsg:
		y, ok := b.(*msgstream.DropCollectionMsg)
		return ok && x.CollectionName == y.CollectionName && x.DbName == y.DbName
	case *msgstream.ImportMsg:
		y, ok := b.(*msgstream.ImportMsg)
		return ok && x.CollectionName == y.CollectionName && x.DbName == y.DbName && x.JobID == y.JobID
	}
	return true
}

func clone(m msgstream.TsMsg) msgstream.TsMsg {
	switch x := m.(type) {
	case *msgstream.InsertMsg:
		return rfake.Insert(uint64(x.Base.MsgID), x.BeginTimestamp, x.ShardName, x.CollectionID, x.PartitionID, x.PartitionName, x.CollectionName, int(x.NumRows))
	case *msgstream.DeleteMsg:
		return rfake.Delete(uint64(x.Base.MsgID), x.BeginTimestamp, x.ShardName, x.CollectionID, x.PartitionID, x.PartitionName, x.CollectionName, int(x.NumRows))
	case *msgstream.DropPartitionMsg:
		return rfake.DropPartition(uint64(x.Base.MsgID), x.BeginTimestamp, "", x.CollectionID, x.PartitionID, x.PartitionName, x.CollectionName)
	case *msgstream.DropCollectionMsg:
		return rfake.DropCollection(uint64(x.Base.MsgID), x.BeginTimestamp, "", x.CollectionID, x.CollectionName)
	case *msgstream.ImportMsg:
		return rfake.Import(uint64(x.Base.MsgID), x.BeginTimestamp, "", x.CollectionID, append([]int64{}, x.PartitionIDs...), x.CollectionName)
	}
	return m
}

func (s *sys) emsg(m msgstream.TsMsg) string {
	kind, id, collID, part, pname, shard, rows := "KOther", uint64(0), int64(0), int64(0), "", "", 0
	ts, ets := m.BeginTs(), m.EndTs()
	rowOK := true
	switch x := m.(type) {
	case *msgstream.InsertMsg:
		kind, id, collID, part, pname, shard, rows = "KInsert", uint64(x.Base.MsgID), x.CollectionID, x.PartitionID, x.PartitionName, x.ShardName, int(x.NumRows)
		for _, t := range x.Timestamps {
			rowOK = rowOK && t == ts
		}
		rowOK = rowOK && len(x.Timestamps) == rows
	case *msgstream.DeleteMsg:
		kind, id, collID, part, pname, shard, rows = "KDelete", uint64(x.Base.MsgID), x.CollectionID, x.PartitionID, x.PartitionName, x.ShardName, int(x.NumRows)
		for _, t := range x.Timestamps {
			rowOK = rowOK && t == ts
		}
		rowOK = rowOK && len(x.Timestamps) == rows
	case *msgstream.DropPartitionMsg:
		kind, id, collID, part, pname = "KDropPart", uint64(x.Base.MsgID), x.CollectionID, x.PartitionID, x.PartitionName
	case *msgstream.DropCollectionMsg:
		kind, id, collID = "KDropColl", uint64(x.Base.MsgID), x.CollectionID
	case *msgstream.ImportMsg:
		kind, id, collID, rows = "KImport", uint64(x.Base.MsgID), x.CollectionID, len(x.PartitionIDs)
	case *msgstream.TimeTickMsg:
		kind = "KTick"
	}
	if src, ok := s.src[id]; ok && kind != "KTick" && !payloadSame(src, m) {
		rows = 99999 // payload differs from the source message: no model accepts this
	}
	if ets != ts || !rowOK {
		ts = 0 // begin / end / row timestamps disagree: no model accepts this
	}
	if kind == "KDropColl" {
		// the model carries the source partition id field of the message (0 for a collection drop)
		part = 0
	}
	return fmt.Sprintf("{| e_kind := %s; e_id := %s; e_coll := %s; e_part := %s; e_pname := %s; e_shard := %s; e_poschan := %s; e_ts := %s; e_posts := %s; e_rows := %d%%nat |}",
		kind, cq.N(id), cq.Z(collID), cq.Z(part), cq.Str(pname), cq.Str(shard), cq.Str(m.Position().GetChannelName()), cq.N(ts), cq.N(m.Position().GetTimestamp()), rows)
}

func (s *sys) drain() {
	pchs := make([]string, 0, len(s.tpchs))
	for p := range s.tpchs {
		pchs = append(pchs, p)
	}
	sort.Strings(pchs)
	for _, pch := range pchs {
		ch := s.mgr.GetMsgChan(pch)
		if ch == nil {
			continue
		}
		for {
			select {
			case rm := <-ch:
				p := rm.MsgPack
				var ms []string
				for _, m := range p.Msgs {
					ms = append(ms, s.emsg(m))
				}
				poschan := ""
				allSame := true
				for _, x := range append(append([]*msgstream.MsgPosition{}, p.StartPositions...), p.EndPositions...) {
					if poschan == "" {
						poschan = x.ChannelName
					}
					allSame = allSame && x.ChannelName == poschan
				}
				if !allSame {
					poschan = "MIXED"
				}
				endts := uint64(0)
				if len(p.EndPositions) > 0 {
					endts = p.EndPositions[0].Timestamp
				}
				s.outAt = append(s.outAt, fmt.Sprintf("%d%%nat", s.cur))
				s.out = append(s.out, fmt.Sprintf("{| ep_chan := %s; ep_coll := %s; ep_cname := %s; ep_spch := %s; ep_begin := %s; ep_end := %s; ep_poschan := %s; ep_endposts := %s; ep_msgs := %s |}",
					cq.Str(pch), cq.Z(rm.CollectionID), cq.Str(rm.CollectionName), cq.Str(rm.PChannelName), cq.N(p.BeginTs), cq.N(p.EndTs), cq.Str(poschan), cq.N(endts), cq.List(ms)))
				continue
			default:
			}
			break
		}
	}
	for {
		select {
		case e := <-s.mgr.GetEventChan():
			s.evAt = append(s.evAt, fmt.Sprintf("%d%%nat", s.cur))
			switch e.EventType {
			case api.ReplicateDropCollection:
				s.events = append(s.events, fmt.Sprintf("(EvDropColl %s %s)", cq.Z(e.CollectionInfo.ID), cq.N(e.ReplicateInfo.MsgTimestamp)))
			case api.ReplicateDropPartition:
				s.events = append(s.events, fmt.Sprintf("(EvDropPart %s %s %s)", cq.Z(e.CollectionInfo.ID), cq.Z(e.PartitionInfo.PartitionID), cq.N(e.ReplicateInfo.MsgTimestamp)))
			case api.ReplicateCreatePartition:
				s.events = append(s.events, fmt.Sprintf("(EvCreatePart %s %s)", cq.Z(e.CollectionInfo.ID), cq.Z(e.PartitionInfo.PartitionID)))
			case api.ReplicateError:
				s.events = append(s.events, fmt.Sprintf("(EvErr %s)", cq.Bool(e.TaskID == "task-"+s.rid)))
			default:
				s.events = append(s.events, "(EvErr false)")
			}
			continue
		default:
		}
		break
	}
}

// quiet waits until no pack is being handled any more (no "done" for a while)
func quiet() {
	for {
		select {
		case <-doneCh:
		case <-time.After(15 * time.Millisecond):
			return
		}
	}
}

func (s *sys) info(c *coll) *pb.CollectionInfo {
	ci := &pb.CollectionInfo{ID: c.id, Schema: &schemapb.CollectionSchema{Name: c.name}, CreateTime: 50, State: pb.CollectionState_CollectionCreated}
	for _, p := range c.src {
		ci.VirtualChannelNames = append(ci.VirtualChannelNames, p[0])
		ci.PhysicalChannelNames = append(ci.PhysicalChannelNames, p[1])
		ci.StartPositions = append(ci.StartPositions, &commonpb.KeyDataPair{Key: p[1], Data: []byte{0}})
	}
	if c.dropped {
		ci.State = pb.CollectionState_CollectionDropped
	}
	return ci
}

var timeouts int

func (s *sys) apply(l label) {
	switch l.kind {
	case "start":
		tc := &rfake.TColl{ID: l.c.tid, Parts: map[string]int64{}, Exists: true}
		for _, p := range l.c.tgt {
			tc.VChs = append(tc.VChs, p[0])
			tc.PChs = append(tc.PChs, p[1])
			s.tpchs[p[1]] = true
		}
		for k, v := range l.c.parts {
			tc.Parts[k] = v
		}
		s.target.Colls[l.c.name] = tc
		_ = s.mgr.StartReadCollection(s.ctx, &model.DatabaseInfo{ID: 1, Name: "default"}, s.info(l.c), nil, nil)
		// the shards register from their own goroutines
		dl := time.Now().Add(5 * time.Second)
		for _, p := range l.c.src {
			for !l.c.waitv[p[0]] && !s.disp.Registered(p[0]) && time.Now().Before(dl) {
				time.Sleep(time.Millisecond)
			}
		}
		for _, v := range l.wakes {
			for !s.disp.Registered(v) && time.Now().Before(dl) {
				time.Sleep(time.Millisecond)
			}
		}
		time.Sleep(3 * time.Millisecond)
	case "addpart":
		_ = s.mgr.AddPartition(s.ctx, &model.DatabaseInfo{ID: 1, Name: "default"}, s.info(l.c),
			&pb.PartitionInfo{PartitionID: l.pid, PartitionName: l.pname, CollectionId: l.c.id, State: pb.PartitionState_PartitionCreated, PartitionCreatedTimestamp: 60})
	case "feed", "park":
		var ms []msgstream.TsMsg
		for _, m := range l.msgs {
			x := build(m, l.svch, l.c)
			if m.pospch && x.Position() != nil {
				op := x.Position()
				x.SetPosition(&msgpb.MsgPosition{ChannelName: l.spch, MsgID: op.MsgID, MsgGroup: op.MsgGroup, Timestamp: op.Timestamp})
			}
			if m.id != 0 {
				s.src[m.id] = clone(x)
			}
			ms = append(ms, x)
		}
		p := rfake.Pack(l.begin, l.end, l.svch, l.begin, l.end, l.nstart, ms...)
		s.target.Answers[l.c.name] = l.answers
		ch := s.disp.Chan(l.svch)
		if ch == nil {
			return
		}
		if l.kind == "park" {
			parkMu.Lock()
			parkAt[p] = l.point
			release[p] = make(chan struct{})
			parkMu.Unlock()
			s.held[l.spch] = p
		}
		select {
		case ch <- p:
		case <-time.After(5 * time.Second):
			timeouts++
			return
		}
		to := time.After(60 * time.Second)
	loop:
		for {
			select {
			case q := <-parkedCh:
				if q == p {
					time.Sleep(2 * time.Millisecond)
					return // held at its scheduling point
				}
			case d := <-doneCh:
				if d.pack == p {
					delete(s.held, l.spch)
					break loop
				}
			case <-to:
				timeouts++
				break loop
			}
		}
		quiet()
	case "resume":
		p := s.held[l.spch]
		if p == nil {
			return
		}
		delete(s.held, l.spch)
		parkMu.Lock()
		close(release[p])
		delete(parkAt, p)
		parkMu.Unlock()
		to := time.After(60 * time.Second)
	rloop:
		for {
			select {
			case d := <-doneCh:
				if d.pack == p {
					break rloop
				}
			case <-to:
				timeouts++
				break rloop
			}
		}
		quiet()
	case "mark":
		s.mgr.AddDroppedCollection(l.ids)
	case "stop":
		_ = s.mgr.StopReadCollection(s.ctx, s.info(l.c))
	}
	time.Sleep(2 * time.Millisecond)
	s.drain()
}

var caseNo int
var mu sync.Mutex

func runCase(out *cq.Out, retries int, labels []label, tag string) {
	caseNo++
	rid := fmt.Sprintf("rid%d", caseNo)
	disp := rfake.NewDispatch()
	tg := rfake.NewTarget()
	rm, _ := meta.NewReplicateMetaImpl(&rfake.MemStore{})
	ns, nt := 0, 0
	if len(labels) > 0 && labels[0].kind == "config" {
		ns, nt = labels[0].ns, labels[0].nt
	}
	mgr, err := reader.NewReplicateChannelManager(disp, rfake.Factory{}, tg, config.ReaderConfig{
		MessageBufferSize: 64, TTInterval: 3600000, Retry: config.RetrySettings{RetryTimes: retries, InitBackOff: 1, MaxBackOff: 1}, ReplicateID: rid,
		SourceChannelNum: ns, TargetChannelNum: nt,
	}, rfake.MetaOp{DefaultMetaOp: &api.DefaultMetaOp{}}, rm, nil, "milvus")
	if err != nil {
		panic(err)
	}
	ctx, cancel := context.WithCancel(context.Background())
	mgr.SetCtx(ctx)
	s := &sys{mgr: mgr, disp: disp, target: tg, ctx: util.GetCtxWithTaskID(ctx, "task-"+rid), rid: rid, tpchs: map[string]bool{}, src: map[uint64]msgstream.TsMsg{}, held: map[string]*msgstream.MsgPack{}}
	var lt []string
	data, forwards := 0, 0
	for i, l := range labels {
		s.cur = i
		s.apply(l)
		lt = append(lt, labelCoq(l))
		out.Count("label=" + l.kind)
		for _, m := range l.msgs {
			out.Count("msg=" + m.kind)
			if m.kind == "insert" || m.kind == "delete" {
				data++
			}
		}
		if l.kind == "feed" && len(l.answers) > 0 {
			out.Count("lazy-partition-refresh")
		}
	}
	time.Sleep(5 * time.Millisecond)
	s.drain()
	cancel()
	for _, o := range s.out {
		if strings.Contains(o, "FWD") {
			forwards++
		}
	}
	out.Add(fmt.Sprintf("{| c_retries := %d%%nat; c_labels := %s; c_out := %s; c_events := %s; c_out_at := %s; c_ev_at := %s |}",
		retries, cq.List(lt), cq.List(s.out), cq.List(s.events), cq.List(s.outAt), cq.List(s.evAt)))
	if data >= 3 && len(s.out) >= 3 {
		out.NonTrivial(strings.Join(lt, ";"))
	}
	out.CountN("emitted-packs", len(s.out))
	out.CountN("events", len(s.events))
	out.Sample(map[string]interface{}{"tag": tag, "labels": lt, "packs_out": len(s.out), "events": s.events})
}

// runSched: one schedule-controlled case (packs held at scheduling points while other handlers of the channel go on)
func runSched(out *cq.Out, labels []label, tag string) {
	caseNo++
	rid := fmt.Sprintf("rid%d", caseNo)
	disp := rfake.NewDispatch()
	tg := rfake.NewTarget()
	rm, _ := meta.NewReplicateMetaImpl(&rfake.MemStore{})
	mgr, err := reader.NewReplicateChannelManager(disp, rfake.Factory{}, tg, config.ReaderConfig{
		MessageBufferSize: 64, TTInterval: 3600000, Retry: config.RetrySettings{RetryTimes: 1, InitBackOff: 1, MaxBackOff: 1}, ReplicateID: rid,
		SourceChannelNum: 2, TargetChannelNum: 1, // two source channels share the one downstream channel
	}, rfake.MetaOp{DefaultMetaOp: &api.DefaultMetaOp{}}, rm, nil, "milvus")
	if err != nil {
		panic(err)
	}
	ctx, cancel := context.WithCancel(context.Background())
	mgr.SetCtx(ctx)
	s := &sys{mgr: mgr, disp: disp, target: tg, ctx: util.GetCtxWithTaskID(ctx, "task-"+rid), rid: rid, tpchs: map[string]bool{}, src: map[uint64]msgstream.TsMsg{}, held: map[string]*msgstream.MsgPack{}}
	lt := []string{"(CSeq (Config 2%N 1%N))"}
	for i, l := range labels {
		s.cur = i + 1
		s.apply(l)
		lt = append(lt, clabelCoq(l))
		out.Count("label=" + l.kind)
		if l.kind == "park" {
			out.Count("park=" + l.point)
		}
	}
	time.Sleep(5 * time.Millisecond)
	s.drain()
	cancel()
	out.Add(fmt.Sprintf("{| cc_retries := 1%%nat; cc_labels := %s; cc_out := %s; cc_events := %s |}", cq.List(lt), cq.List(s.out), cq.List(s.events)))
	if len(s.out) >= 3 {
		out.NonTrivial(strings.Join(lt, ";"))
	}
	out.CountN("emitted-packs", len(s.out))
	out.Sample(map[string]interface{}{"tag": tag, "labels": lt, "packs_out": len(s.out)})
}

func main() {
	a := hx.Parse()
	deadlock.Opts.Disable = true // as server/main does unless DetectDeadLock is configured
	config.InitCommonConfig(func(c *config.CommonConfig) {
		c.Retry = config.RetrySettings{RetryTimes: 1, InitBackOff: 1, MaxBackOff: 1}
	})
	reader.SetVerifYieldFunc(yieldHook)
	if *mode == "c16m" {
		out := cq.NewOut(a.Out, "From Verif Require Import C16.Manager C16.MCheck.", "mcase", 8)
		mappingCorpus(out)
		runRace(out)
		for id := 0; id < a.N; id++ {
			ns, nt, os := genMapping(a)
			runMapping(out, ns, nt, os, "random", id%3 == 2)
		}
		if err := out.Flush(); err != nil {
			panic(err)
		}
		return
	}
	if *mode == "c03s" {
		out := cq.NewOut(a.Out, "From Verif Require Import Reader.Model Reader.Conc C03.SCheck.", "ccase", 100)
		schedCorpus(out)
		for id := 0; id < a.N; id++ {
			runSched(out, genSched(a), "random")
		}
		out.Extra["sync_timeouts"] = timeouts
		if err := out.Flush(); err != nil {
			panic(err)
		}
		return
	}
	imp := map[string]string{"c01": "C01.Check", "c02": "C02.Check", "c03": "C03.Check", "c04": "C04.Check", "c06": "C06.RCheck"}[*mode]
	out := cq.NewOut(a.Out, fmt.Sprintf("From Verif Require Import Reader.Model %s.", imp), "case", 100)
	corpus(out)
	for id := 0; id < a.N; id++ {
		labels, retries := generate(a, *mode)
		runCase(out, retries, labels, "random")
	}
	out.Extra["sync_timeouts"] = timeouts
	if err := out.Flush(); err != nil {
		panic(err)
	}
}
