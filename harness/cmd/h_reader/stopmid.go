package main

import (
	"context"
	"fmt"
	"strings"
	"sync"
	"time"

	"github.com/milvus-io/milvus/pkg/mq/msgstream"

	"github.com/zilliztech/milvus-cdc/core/api"
	"github.com/zilliztech/milvus-cdc/core/config"
	"github.com/zilliztech/milvus-cdc/core/reader"
	"github.com/zilliztech/milvus-cdc/core/util"
	"github.com/zilliztech/milvus-cdc/core/meta"
	"github.com/zilliztech/milvus-cdc/core/model"

	"verifharness/lib/cq"
	"verifharness/lib/hx"
	"verifharness/lib/rfake"
)

// mode c04s: a collection of 1 or 2 shards is started, its shards read the drop-collection message, it is stopped and started
// again - and in label "readstop" the stop falls between the count of the last shard and the hand-over of the drop request:
// the replicate meta store holds the recording of the last signal (the barrier goroutine is inside its update function) while
// StopReadCollection closes the barrier.  Which way the callback then takes is observed (a request came out or not) and
// written into the label.  After every label: the number of drop-collection requests so far.

var (
	gateMu   sync.Mutex
	gateArm  bool
	gateIn   = make(chan struct{}, 1)
	gateFree = make(chan struct{})
)

func storeGate(key string) {
	gateMu.Lock()
	armed := gateArm
	gateArm = false
	free := gateFree
	gateMu.Unlock()
	if !armed {
		return
	}
	gateIn <- struct{}{}
	<-free
}

func (s *sys) dropReqs() int {
	n := 0
	for _, e := range s.events {
		if strings.HasPrefix(e, "(EvDropColl") {
			n++
		}
	}
	return n
}

func runStopMid(out *cq.Out, shards int, ops []string, tag string) {
	caseNo++
	rid := fmt.Sprintf("rid%d", caseNo)
	disp := rfake.NewDispatch()
	tg := rfake.NewTarget()
	rm, _ := meta.NewReplicateMetaImpl(&rfake.MemStore{Gate: storeGate})
	mgr, err := reader.NewReplicateChannelManager(disp, rfake.Factory{}, tg, config.ReaderConfig{
		MessageBufferSize: 64, TTInterval: 3600000, Retry: config.RetrySettings{RetryTimes: 1, InitBackOff: 1, MaxBackOff: 1}, ReplicateID: rid,
	}, rfake.MetaOp{DefaultMetaOp: &api.DefaultMetaOp{}}, rm, nil, "milvus")
	if err != nil {
		panic(err)
	}
	ctx, cancel := context.WithCancel(context.Background())
	mgr.SetCtx(ctx)
	s := &sys{mgr: mgr, disp: disp, target: tg, ctx: util.GetCtxWithTaskID(ctx, "task-"+rid), rid: rid, tpchs: map[string]bool{}, src: map[uint64]msgstream.TsMsg{}, held: map[string]*msgstream.MsgPack{}}
	d := &coll{id: 1, tid: 9001, name: "c1", src: [][2]string{{"src-dml_0_1v0", "src-dml_0"}}, tgt: [][2]string{{"tgt-dml_0_9001v0", "tgt-dml_0"}},
		parts: map[string]int64{"_default": 900100}}
	if shards == 2 {
		d.src = append(d.src, [2]string{"src-dml_1_1v1", "src-dml_1"})
		d.tgt = append(d.tgt, [2]string{"tgt-dml_1_9001v1", "tgt-dml_1"})
	}
	ts := []uint64{100, 300}
	id := uint64(0)
	seen := 0
	reading := false
	read := func(sh int) label {
		id++
		b := ts[sh]
		ts[sh] = b + 3
		return label{kind: "feed", c: d, spch: d.src[sh][1], svch: d.src[sh][0], begin: b, end: b + 3, nstart: 1,
			msgs: []smsg{{kind: "dropcoll", id: id, coll: 1, ts: b + 2}}}
	}
	var lt []string
	var reqs []string
	mids, lates := 0, 0
	for _, op := range ops {
		s.cur = len(lt)
		switch op {
		case "start":
			s.apply(label{kind: "start", c: d})
			// the harness' own view of the registration steers the feeding only: nothing is fed to a collection that is not read
			if !reading && s.dropReqs() == 0 {
				reading, seen = true, 0
			}
			lt = append(lt, "LStart")
		case "stop":
			s.apply(label{kind: "stop", c: d})
			reading, seen = false, 0
			lt = append(lt, "LStop")
		case "startstop":
			// the collection is stopped while the registrations of its shards' streams are still in flight (held in the fake
			// dispatcher); they complete after the stop.  For the model: a start followed by a stop.
			if reading || s.dropReqs() > 0 {
				s.apply(label{kind: "start", c: d})
				lt = append(lt, "LStart")
				reqs = append(reqs, cq.Nat(s.dropReqs()))
				s.apply(label{kind: "stop", c: d})
				reading, seen = false, 0
				lt = append(lt, "LStop")
				break
			}
			free := make(chan struct{})
			in := make(chan struct{}, 8)
			disp.Gate = func(v string) {
				in <- struct{}{}
				<-free
			}
			tc := &rfake.TColl{ID: d.tid, Parts: map[string]int64{}, Exists: true}
			for _, p := range d.tgt {
				tc.VChs = append(tc.VChs, p[0])
				tc.PChs = append(tc.PChs, p[1])
				s.tpchs[p[1]] = true
			}
			for k, v := range d.parts {
				tc.Parts[k] = v
			}
			s.target.Colls[d.name] = tc
			_ = s.mgr.StartReadCollection(s.ctx, &model.DatabaseInfo{ID: 1, Name: "default"}, s.info(d), nil, nil)
			held := 0
			to := time.After(2 * time.Second)
		wait:
			for held < shards {
				select {
				case <-in:
					held++
				case <-to:
					timeouts++
					break wait
				}
			}
			lt = append(lt, "LStart")
			reqs = append(reqs, cq.Nat(s.dropReqs()))
			s.apply(label{kind: "stop", c: d})
			disp.Gate = nil
			close(free)
			dl := time.Now().Add(2 * time.Second)
			for _, p := range d.src {
				for !disp.Registered(p[0]) && time.Now().Before(dl) {
					time.Sleep(time.Millisecond)
				}
			}
			time.Sleep(5 * time.Millisecond)
			if held == shards {
				lates++
			}
			reading, seen = false, 0
			lt = append(lt, "LStop")
		case "read":
			if reading && seen < shards {
				s.apply(read(seen))
				seen++
			}
			lt = append(lt, "LRead")
		case "readstop":
			before := s.dropReqs()
			last := reading && seen+1 == shards
			if last {
				gateMu.Lock()
				gateArm = true
				gateFree = make(chan struct{})
				gateMu.Unlock()
			}
			if reading && seen < shards {
				s.apply(read(seen))
			}
			entered := false
			if last {
				select {
				case <-gateIn:
					entered = true
				case <-time.After(2 * time.Second):
					timeouts++
				}
			}
			s.apply(label{kind: "stop", c: d})
			if last {
				gateMu.Lock()
				gateArm = false
				close(gateFree)
				gateMu.Unlock()
				// the callback runs right after the held write returns; a request, if it hands one over, is there within
				// microseconds - wait much longer than that before the label is written down without one
				for k := 0; k < 15 && s.dropReqs() == before; k++ {
					time.Sleep(2 * time.Millisecond)
					s.drain()
				}
				if entered {
					mids++
				}
			}
			reading, seen = false, 0
			lt = append(lt, fmt.Sprintf("(LReadStop %s)", cq.Bool(s.dropReqs() > before)))
		}
		time.Sleep(2 * time.Millisecond)
		s.drain()
		reqs = append(reqs, cq.Nat(s.dropReqs()))
	}
	cancel()
	out.Add(fmt.Sprintf("{| sm_shards := %s; sm_ops := %s; sm_reqs := %s |}", cq.Nat(shards), cq.List(lt), cq.List(reqs)))
	out.Count(fmt.Sprintf("shards=%d", shards))
	if mids > 0 {
		out.CountN("stops between the last count and the hand-over", mids)
		out.NonTrivial(fmt.Sprint(shards, lt))
	}
	if lates > 0 {
		out.CountN("stops while the stream registrations are in flight", lates)
		out.NonTrivial(fmt.Sprint(shards, lt))
	}
	for _, l := range lt {
		if strings.HasPrefix(l, "(LReadStop") {
			out.Count(l)
		}
	}
	out.Sample(map[string]interface{}{"tag": tag, "shards": shards, "labels": lt, "requests": reqs})
}

func runStopMidAll(out *cq.Out, a *hx.Args) {
	closing := func(sh int) []string {
		o := []string{"stop", "start"}
		for i := 0; i < sh; i++ {
			o = append(o, "read")
		}
		return o
	}
	runStopMid(out, 1, append([]string{"start", "readstop"}, closing(1)...), "corpus: one shard, the stop before the hand-over")
	runStopMid(out, 2, append([]string{"start", "read", "readstop"}, closing(2)...), "corpus: two shards, the stop before the hand-over")
	runStopMid(out, 2, append([]string{"start", "read", "stop", "start", "read", "read"}, closing(2)...), "corpus: stopped half way, started again, dropped")
	runStopMid(out, 2, append([]string{"startstop"}, closing(2)[1:]...), "corpus: stopped while the stream registrations are in flight, started again, dropped")
	runStopMid(out, 1, append([]string{"start", "stop", "startstop"}, closing(1)[1:]...), "corpus: started, stopped, then stopped again while the registration is in flight")
	r := a.Rng
	for i := 0; i < a.N; i++ {
		sh := 1 + r.Intn(2)
		ops := []string{"start"}
		for k := r.Intn(5); k > 0; k-- {
			switch x := r.Intn(10); {
			case x < 4:
				ops = append(ops, "read")
			case x < 7:
				ops = append(ops, "readstop")
			case x < 8:
				ops = append(ops, "stop")
			case x < 9:
				ops = append(ops, "stop", "startstop")
			default:
				ops = append(ops, "start")
			}
		}
		cl := closing(sh)
		if r.Intn(4) == 0 {
			// the closing stop is one whose registrations are still in flight
			ops = append(ops, "stop", "startstop")
			cl = cl[1:]
		}
		runStopMid(out, sh, append(ops, cl...), "generated")
	}
}
