package main

import (
	"fmt"
	"time"

	"github.com/zilliztech/milvus-cdc/core/model"

	"verifharness/lib/cq"
	"verifharness/lib/hx"
)

// mode c04o: the once-only barrier signal of a shard. k goroutines call Write on one fresh OnceWriteChan over an unbuffered
// channel that nobody reads yet, one after the other (each is blocked - on the send or behind the first caller - or has returned
// before the next one starts); then the channel is read until it stays empty. One signal must arrive, whatever k is.
func runOnce(out *cq.Out, a *hx.Args) {
	for n := 0; n < a.N; n++ {
		k := n % 4 // 0..3 callers
		ch := make(chan *model.BarrierSignal)
		w := model.NewOnceWriteChan[*model.BarrierSignal](ch)
		for i := 0; i < k; i++ {
			go w.Write(&model.BarrierSignal{VChannel: fmt.Sprintf("v%d", i)})
			time.Sleep(2 * time.Millisecond)
		}
		got := 0
	loop:
		for {
			select {
			case <-ch:
				got++
			case <-time.After(15 * time.Millisecond):
				break loop
			}
		}
		out.Add(fmt.Sprintf("{| oc_writers := %s; oc_signals := %s |}", cq.Nat(k), cq.Nat(got)))
		out.Count(fmt.Sprintf("callers=%d", k))
		if k >= 2 {
			out.NonTrivial(fmt.Sprintf("%d/%d", k, n))
		}
	}
}
