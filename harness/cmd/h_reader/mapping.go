package main

import (
	"context"
	"fmt"
	"strings"
	"time"

	"github.com/milvus-io/milvus/pkg/mq/msgstream"

	"github.com/zilliztech/milvus-cdc/core/api"
	"github.com/zilliztech/milvus-cdc/core/config"
	"github.com/zilliztech/milvus-cdc/core/meta"
	"github.com/zilliztech/milvus-cdc/core/model"
	"github.com/zilliztech/milvus-cdc/core/reader"
	"github.com/zilliztech/milvus-cdc/core/util"

	"verifharness/lib/cq"
	"verifharness/lib/hx"
	"verifharness/lib/rfake"
)

// mode c16m: (source, downstream) physical channel pairs are offered to the real channel manager - one one-shard collection
// per offer - with different channel counts on the two sides; after every offer and at quiescence the manager's channel
// mapping is read (hook H8) as the set of assigned (source, downstream) pairs.

type offer struct {
	l, s int
	fwd  bool // not an offer: a pack to forward to the smaller-side channel with this index meets the manager (forwardMsg)
}

func runMapping(out *cq.Out, ns, nt int, offers []offer, tag string, sameNames bool) {
	caseNo++
	rid := fmt.Sprintf("rid%d", caseNo)
	disp := rfake.NewDispatch()
	tg := rfake.NewTarget()
	rm, _ := meta.NewReplicateMetaImpl(&rfake.MemStore{})
	mgr, err := reader.NewReplicateChannelManager(disp, rfake.Factory{}, tg, config.ReaderConfig{
		MessageBufferSize: 64, TTInterval: 3600000, Retry: config.RetrySettings{RetryTimes: 1, InitBackOff: 1, MaxBackOff: 1}, ReplicateID: rid,
		SourceChannelNum: ns, TargetChannelNum: nt,
	}, rfake.MetaOp{DefaultMetaOp: &api.DefaultMetaOp{}}, rm, nil, "milvus")
	if err != nil {
		panic(err)
	}
	ctx, cancel := context.WithCancel(context.Background())
	mgr.SetCtx(ctx)
	s := &sys{mgr: mgr, disp: disp, target: tg, ctx: util.GetCtxWithTaskID(ctx, "task-"+rid), rid: rid, tpchs: map[string]bool{}, src: map[uint64]msgstream.TsMsg{}, held: map[string]*msgstream.MsgPack{}}
	srcName := func(i int) string { return fmt.Sprintf("src-dml_%d", i) }
	tgtName := func(j int) string { return fmt.Sprintf("tgt-dml_%d", j) }
	if sameNames {
		// both clusters name their physical channels alike (the default of a Milvus installation)
		srcName = func(i int) string { return fmt.Sprintf("by-dev-rootcoord-dml_%d", i) }
		tgtName = srcName
	}
	grid := func() string {
		var ps []string
		reader.VerifChannelMapping(mgr, func(m *util.ChannelMapping, fw map[string]int) {
			for i := 0; i < ns; i++ {
				for j := 0; j < nt; j++ {
					if m.CheckKeyExist(srcName(i), tgtName(j)) {
						ps = append(ps, cq.Pair(cq.Str(srcName(i)), cq.Str(tgtName(j))))
					}
				}
			}
		})
		return cq.List(ps)
	}
	var os, gs []string
	go func() { // error events of forwardMsg ("channel not found")
		for {
			select {
			case <-ctx.Done():
				return
			case <-mgr.GetEventChan():
			}
		}
	}()
	waitTgt := map[string]bool{} // the value-side channels that were offered with a key that had to wait
	for k, o := range offers {
		if o.fwd {
			// the value side is the smaller side
			x := tgtName(o.s)
			if ns < nt {
				x = srcName(o.l)
			}
			served := waitTgt[x]
			reader.VerifChannelMapping(mgr, func(m *util.ChannelMapping, fw map[string]int) {
				for i := 0; i < ns; i++ {
					for j := 0; j < nt; j++ {
						if m.CheckKeyExist(srcName(i), tgtName(j)) && (tgtName(j) == x || srcName(i) == x) {
							served = true
						}
					}
				}
			})
			if served {
				continue // somebody serves (or waits with) the channel: the pack would be handed to that handler
			}
			reader.VerifForwardMsg(mgr, x, api.GetReplicateMsg(srcName(0), "coll", 1, &msgstream.MsgPack{}, "task-"+rid))
			time.Sleep(8 * time.Millisecond)
			os = append(os, fmt.Sprintf("EMsgFwd %s", cq.Str(x)))
			gs = append(gs, grid())
			out.Count("forwardMsg events")
			continue
		}
		id := int64(k + 1)
		c := &coll{id: id, tid: 9000 + id, name: fmt.Sprintf("c%d", id),
			src: [][2]string{{fmt.Sprintf("%s_%dv0", srcName(o.l), id), srcName(o.l)}}, tgt: [][2]string{{fmt.Sprintf("%s_%dv0", tgtName(o.s), 9000+id), tgtName(o.s)}},
			parts: map[string]int64{"_default": 900000 + id}}
		tg.Colls[c.name] = &rfake.TColl{ID: c.tid, VChs: []string{c.tgt[0][0]}, PChs: []string{c.tgt[0][1]}, Parts: map[string]int64{"_default": 900000 + id}, Exists: true}
		_ = mgr.StartReadCollection(s.ctx, &model.DatabaseInfo{ID: 1, Name: "default"}, s.info(c), nil, nil)
		time.Sleep(8 * time.Millisecond)
		os = append(os, fmt.Sprintf("EOffer %s %s", cq.Str(srcName(o.l)), cq.Str(tgtName(o.s))))
		gs = append(gs, grid())
		// every offered value-side channel may be the recorded channel of a waiting handler (forwardMsg would hand the pack to it)
		if ns < nt {
			waitTgt[srcName(o.l)] = true
		} else {
			waitTgt[tgtName(o.s)] = true
		}
		out.Count("offers")
	}
	time.Sleep(60 * time.Millisecond)
	gs = append(gs, grid())
	cancel()
	out.Add(fmt.Sprintf("{| mc_src := %s; mc_tgt := %s; mc_events := %s; mc_grids := %s |}", cq.Nat(ns), cq.Nat(nt), cq.List(os), cq.List(gs)))
	out.Count(fmt.Sprintf("counts=%dx%d", ns, nt))
	out.Count(fmt.Sprintf("same channel names on both sides=%v", sameNames))
	if ns != nt && len(offers) >= 4 {
		out.NonTrivial(strings.Join(os, ";"))
	}
	out.Sample(map[string]interface{}{"tag": tag, "offers": os, "final": gs[len(gs)-1]})
}

func mappingCorpus(out *cq.Out) {
	// 6 source channels on 3 downstream channels (2 each): tgt-dml_0 filled, two forwards of tgt-dml_1 pending, two waiters
	runMapping(out, 6, 3, []offer{{l: 0, s: 0}, {l: 1, s: 0}, {l: 5, s: 1}, {l: 0, s: 1}, {l: 1, s: 1}, {l: 2, s: 0}, {l: 3, s: 0}, {l: 4, s: 2}}, "corpus: two pending forwards, two waiters", false)
	// the other direction: 3 source channels, 6 downstream channels
	runMapping(out, 3, 6, []offer{{l: 0, s: 0}, {l: 0, s: 1}, {l: 1, s: 5}, {l: 0, s: 2}, {l: 0, s: 3}, {l: 2, s: 4}, {l: 1, s: 0}, {l: 2, s: 1}}, "corpus: more downstream channels than source channels", false)
	// equal counts: one-to-one
	runMapping(out, 3, 3, []offer{{l: 0, s: 0}, {l: 1, s: 0}, {l: 2, s: 0}, {l: 1, s: 1}, {l: 2, s: 2}, {l: 0, s: 1}}, "corpus: equal counts", false)
	// a waiting handler takes a channel that forwardMsg offers (no place is reserved), then a new key is offered with that channel
	runMapping(out, 3, 3, []offer{{l: 0, s: 0}, {l: 1, s: 0}, {l: 0, s: 1, fwd: true}, {l: 2, s: 1}, {l: 2, s: 2}}, "corpus: unreserved offer of forwardMsg, then a direct offer", false)
	runMapping(out, 5, 3, []offer{{l: 0, s: 0}, {l: 1, s: 0}, {l: 2, s: 0}, {l: 3, s: 0}, {l: 0, s: 1, fwd: true}, {l: 0, s: 1}, {l: 4, s: 1}}, "corpus: unreserved offer and a counted forward of one channel", false)
}

func genMapping(a *hx.Args) (int, int, []offer) {
	r := a.Rng
	counts := [][2]int{{6, 3}, {3, 6}, {4, 2}, {2, 4}, {5, 2}, {2, 5}, {3, 3}, {6, 4}}
	c := counts[r.Intn(len(counts))]
	n := 4 + r.Intn(10)
	var os []offer
	for i := 0; i < n; i++ {
		os = append(os, offer{l: r.Intn(c[0]), s: r.Intn(c[1]), fwd: i > 1 && r.Intn(7) == 0})
	}
	return c[0], c[1], os
}

// a waiting handler is held between its receive and the manager lock (hook H9) while a pack that must be forwarded to the
// promised channel arrives: forwardMsg finds nobody serving that channel yet and hands it to a second waiting handler
func runRace(out *cq.Out) {
	caseNo++
	rid := fmt.Sprintf("rid%d", caseNo)
	ns, nt := 3, 3
	disp := rfake.NewDispatch()
	tg := rfake.NewTarget()
	rm, _ := meta.NewReplicateMetaImpl(&rfake.MemStore{})
	mgr, err := reader.NewReplicateChannelManager(disp, rfake.Factory{}, tg, config.ReaderConfig{
		MessageBufferSize: 64, TTInterval: 3600000, Retry: config.RetrySettings{RetryTimes: 1, InitBackOff: 1, MaxBackOff: 1}, ReplicateID: rid,
		SourceChannelNum: ns, TargetChannelNum: nt,
	}, rfake.MetaOp{DefaultMetaOp: &api.DefaultMetaOp{}}, rm, nil, "milvus")
	if err != nil {
		panic(err)
	}
	ctx, cancel := context.WithCancel(context.Background())
	mgr.SetCtx(ctx)
	s := &sys{mgr: mgr, disp: disp, target: tg, ctx: util.GetCtxWithTaskID(ctx, "task-"+rid), rid: rid, tpchs: map[string]bool{}, src: map[uint64]msgstream.TsMsg{}, held: map[string]*msgstream.MsgPack{}}
	srcName := func(i int) string { return fmt.Sprintf("src-dml_%d", i) }
	tgtName := func(j int) string { return fmt.Sprintf("tgt-dml_%d", j) }
	grid := func() string {
		var ps []string
		reader.VerifChannelMapping(mgr, func(m *util.ChannelMapping, fw map[string]int) {
			for i := 0; i < ns; i++ {
				for j := 0; j < nt; j++ {
					if m.CheckKeyExist(srcName(i), tgtName(j)) {
						ps = append(ps, cq.Pair(cq.Str(srcName(i)), cq.Str(tgtName(j))))
					}
				}
			}
		})
		return cq.List(ps)
	}
	var evs, gs []string
	var colls []*coll
	start := func(k int, o offer) {
		id := int64(k + 1)
		c := &coll{id: id, tid: 9000 + id, name: fmt.Sprintf("c%d", id),
			src: [][2]string{{fmt.Sprintf("%s_%dv0", srcName(o.l), id), srcName(o.l)}}, tgt: [][2]string{{fmt.Sprintf("%s_%dv0", tgtName(o.s), 9000+id), tgtName(o.s)}},
			parts: map[string]int64{"_default": 900000 + id}}
		colls = append(colls, c)
		tg.Colls[c.name] = &rfake.TColl{ID: c.tid, VChs: []string{c.tgt[0][0]}, PChs: []string{c.tgt[0][1]}, Parts: map[string]int64{"_default": 900000 + id}, Exists: true}
		_ = mgr.StartReadCollection(s.ctx, &model.DatabaseInfo{ID: 1, Name: "default"}, s.info(c), nil, nil)
		evs = append(evs, fmt.Sprintf("EOffer %s %s", cq.Str(srcName(o.l)), cq.Str(tgtName(o.s))))
	}
	parked := func(d time.Duration) bool {
		select {
		case <-waitParked:
			return true
		case <-time.After(d):
			return false
		}
	}
	for k, o := range []offer{{l: 0, s: 0}, {l: 1, s: 0}, {l: 2, s: 0}} {
		start(k, o)
		time.Sleep(8 * time.Millisecond)
		gs = append(gs, grid())
	}
	waitRelease = make(chan struct{})
	waitHold.Store(true)
	start(3, offer{l: 0, s: 1}) // the handler of src-dml_0 exists with another downstream channel: tgt-dml_1 is promised to a waiting handler
	first := parked(2 * time.Second)
	gs = append(gs, grid())
	c4 := colls[3]
	dl := time.Now().Add(2 * time.Second)
	for !disp.Registered(c4.src[0][0]) && time.Now().Before(dl) {
		time.Sleep(time.Millisecond)
	}
	// a pack of the fourth collection: its downstream channel is tgt-dml_1, the handler that read it serves tgt-dml_0
	s.apply(label{kind: "feed", c: c4, svch: c4.src[0][0], spch: c4.src[0][1], begin: 100, end: 110, nstart: 1,
		msgs: []smsg{{kind: "insert", id: 1, coll: c4.id, part: 1, pname: "_default", ts: 105, rows: 1}}})
	second := parked(time.Second)
	evs = append(evs, fmt.Sprintf("EMsgFwd %s", cq.Str(tgtName(1))))
	gs = append(gs, grid())
	waitHold.Store(false)
	close(waitRelease)
	time.Sleep(80 * time.Millisecond)
	gs = append(gs, grid())
	cancel()
	out.Add(fmt.Sprintf("{| mc_src := %s; mc_tgt := %s; mc_events := %s; mc_grids := %s |}", cq.Nat(ns), cq.Nat(nt), cq.List(evs), cq.List(gs)))
	out.Count(fmt.Sprintf("race: first waiting handler held=%v, second reached by forwardMsg=%v", first, second))
	out.NonTrivial("race")
	out.Sample(map[string]interface{}{"tag": "corpus: forwardMsg reaches a second waiting handler while the first is held before the lock", "events": evs, "final": gs[len(gs)-1]})
}
