package main

import (
	"fmt"
	"sort"

	"verifharness/lib/cq"
	"verifharness/lib/hx"
)

var srcs = []string{"src-dml_0", "src-dml_1"}
var tgts = []string{"tgt-dml_0", "tgt-dml_1"}

type stream struct {
	c        *coll
	svch     string
	spch     string
	ts       uint64
	first    bool
	ended    bool
	dropPart bool
	waiting  bool // the stream's handler waits for a downstream channel: nothing is read yet
}

type waitInfo struct {
	s     string
	svchs []string
}

type gen struct {
	a          *hx.Args
	same22     bool      // the manager is created with 2 and 2 channels: a handler whose downstream channel is taken waits
	waiter     *waitInfo // the handler that waits for a downstream channel (at most one at a time)
	quota      int            // how many source channels a downstream channel may serve (1; 2 with two source and one downstream channel)
	tgtUse     map[string]int // handlers per downstream channel
	handlerSeek map[string]uint64 // seek time of the handler of a source channel (that of the collection that created it)
	wakes      []string  // set by newColl: the virtual channels that start reading because this collection forwarded a channel
	handlerTgt map[string]string
	usedTgt    map[string]bool
	colls      []*coll
	streams    []*stream
	nextID     uint64
	labels     []label
	added      map[string]bool // "coll/pname" partitions announced through AddPartition
}

func (g *gen) id() uint64 { g.nextID++; return g.nextID }

func (g *gen) newColl(i int, allowErr bool) *coll {
	r := g.a.Rng
	c := &coll{id: int64(i + 1), tid: int64(9001 + i), name: fmt.Sprintf("c%d", i+1), parts: map[string]int64{}}
	for try := 0; try < 20; try++ {
		k := 1 + r.Intn(2)
		sp := r.Perm(2)[:k]
		tp := r.Perm(2)[:k]
		// pairing is by sorted name
		sortInts(sp)
		sortInts(tp)
		ok := true
		wake, wait := -1, -1
		for j := 0; j < k; j++ {
			s, t := srcs[sp[j]], tgts[tp[j]]
			if g.waiter != nil && g.waiter.s == s {
				ok = false // the key of the waiting handler is left alone
			} else if ht, has := g.handlerTgt[s]; has {
				if ht != t && !g.usedTgt[t] {
					if g.waiter != nil && wake < 0 {
						wake = j // the channel is forwarded to the waiting handler
					} else if !(allowErr && r.Intn(20) == 0) {
						ok = false // forward to a channel nobody owns: an error path, kept rare
					}
				}
			} else if g.tgtUse[t] >= g.quota {
				if g.same22 && k == 1 && g.waiter == nil {
					wait = j // a new handler whose downstream channel is taken: it waits
				} else {
					ok = false
				}
			}
		}
		if !ok {
			continue
		}
		for j := 0; j < k; j++ {
			s, t := srcs[sp[j]], tgts[tp[j]]
			c.src = append(c.src, [2]string{fmt.Sprintf("%s_%dv%d", s, c.id, j), s})
			c.tgt = append(c.tgt, [2]string{fmt.Sprintf("%s_%dv%d", t, c.tid, j), t})
			switch {
			case j == wait:
				g.waiter = &waitInfo{s: s, svchs: []string{c.src[j][0]}}
				c.waitv = map[string]bool{c.src[j][0]: true}
			case j == wake:
				g.handlerTgt[g.waiter.s] = t
				g.usedTgt[t] = true
				g.tgtUse[t]++
				g.wakes = g.waiter.svchs
				g.waiter = nil
			default:
				if _, has := g.handlerTgt[s]; !has {
					g.handlerTgt[s] = t
					g.usedTgt[t] = true
					g.tgtUse[t]++
				}
			}
		}
		// the catalogs may list the shards in any order
		if k == 2 && r.Intn(2) == 0 {
			c.src[0], c.src[1] = c.src[1], c.src[0]
		}
		if k == 2 && r.Intn(2) == 0 {
			c.tgt[0], c.tgt[1] = c.tgt[1], c.tgt[0]
		}
		break
	}
	if len(c.src) == 0 {
		return nil
	}
	c.parts["_default"] = c.tid * 100
	return c
}

func sortInts(x []int) {
	for i := 1; i < len(x); i++ {
		for j := i; j > 0 && x[j] < x[j-1]; j-- {
			x[j], x[j-1] = x[j-1], x[j]
		}
	}
}

func generate(a *hx.Args, mode string) ([]label, int) {
	r := a.Rng
	g := &gen{a: a, handlerTgt: map[string]string{}, usedTgt: map[string]bool{}, added: map[string]bool{}, handlerSeek: map[string]uint64{}, tgtUse: map[string]int{}, quota: 1}
	srcs, tgts = []string{"src-dml_0", "src-dml_1"}, []string{"tgt-dml_0", "tgt-dml_1"}
	if r.Intn(4) == 0 {
		// physical channel names that are prefixes of each other on both sides
		srcs, tgts = []string{"src-dml_1", "src-dml_10"}, []string{"tgt-dml_1", "tgt-dml_10"}
	}
	n := 1 + r.Intn(3)
	late := false
	switch r.Intn(8) {
	case 0, 1:
		// two and two channels: the wait / forward path of the manager
		g.same22 = true
		g.labels = append(g.labels, label{kind: "config", ns: 2, nt: 2})
		n = 2 + r.Intn(3)
	case 2:
		// two source channels share the one downstream channel; a collection may be started later, from an older position
		g.quota = 2
		tgts = []string{tgts[0], tgts[0]}
		g.labels = append(g.labels, label{kind: "config", ns: 2, nt: 1})
		n = 1
		late = true
	}
	lazy := r.Intn(12) == 0 // one lazily learnt partition in this case (costs half a second)
	ncoll := 0
	startOne := func(older bool) {
		i := ncoll
		ncoll++
		had := map[string]bool{}
		for k := range g.handlerTgt {
			had[k] = true
		}
		if g.waiter != nil {
			had[g.waiter.s] = true
		}
		c := g.newColl(i, mode == "c02")
		if c == nil {
			return
		}
		if r.Intn(3) == 0 || (late && r.Intn(2) == 0) {
			// the task resumes from saved positions
			c.seek = map[string]uint64{}
			for _, p := range c.src {
				c.seek[p[1]] = uint64(40 + r.Intn(60))
			}
		}
		for _, p := range c.src {
			if !had[p[1]] {
				g.handlerSeek[p[1]] = c.seek[p[1]]
			}
		}
		// partitions p1, p2: known downstream from the start, or created through the event
		for k := 1; k <= 2; k++ {
			if r.Intn(3) != 0 {
				continue
			}
			pn := fmt.Sprintf("p%d", k)
			if r.Intn(3) != 0 && !(lazy && k == 1) {
				c.parts[pn] = c.tid*100 + int64(k)
			}
		}
		// the collection was dropped upstream while CDC was down (it still exists downstream): every shard handler that resumed
		// from a position generates the drop-collection message itself
		var cgens []label
		if len(c.seek) > 0 && len(c.waitv) == 0 && !lazy && g.wakes == nil && r.Intn(6) == 0 {
			ok := true
			ss, ts := append([][2]string{}, c.src...), append([][2]string{}, c.tgt...)
			sort.Slice(ss, func(a, b int) bool { return ss[a][0] < ss[b][0] })
			sort.Slice(ts, func(a, b int) bool { return ts[a][0] < ts[b][0] })
			seenT := map[string]bool{}
			for j := range ss {
				if g.handlerTgt[ss[j][1]] != ts[j][1] || seenT[ts[j][1]] || g.handlerSeek[ss[j][1]] == 0 {
					ok = false
				}
				seenT[ts[j][1]] = true
			}
			if ok {
				c.dropped = true
				for _, p := range c.src {
					z := g.handlerSeek[p[1]]
					cgens = append(cgens, label{kind: "feed", virtual: true, c: c, spch: p[1], svch: p[0], begin: z, end: z, nstart: 1,
						msgs: []smsg{{kind: "dropcoll", id: uint64(c.tid)*1000 + 999, coll: c.id, ts: z, pospch: true}}})
				}
			}
		}
		g.colls = append(g.colls, c)
		g.labels = append(g.labels, label{kind: "start", c: c, wakes: g.wakes, ngen: len(cgens)})
		g.labels = append(g.labels, cgens...)
		for _, v := range g.wakes {
			for _, st := range g.streams {
				if st.svch == v {
					st.waiting = false
				}
			}
		}
		g.wakes = nil
		tsBase := uint64(1000*(i+1) + r.Intn(500))
		if older {
			tsBase = uint64(200 + r.Intn(300)) // the source clock of the late collection lies behind the downstream channel's time
		}
		for _, p := range c.src {
			if c.dropped {
				break // nothing more is read for a collection whose drop has been delivered
			}
			g.streams = append(g.streams, &stream{c: c, svch: p[0], spch: p[1], ts: tsBase, first: true, waiting: c.waitv[p[0]]})
		}
		for k := 1; k <= 2; k++ {
			// (no registration while the collection's handler waits for a channel: AddPartition finds no handler and gives up)
			if r.Intn(2) == 0 && len(c.waitv) == 0 && !c.dropped {
				pn := fmt.Sprintf("p%d", k)
				l := label{kind: "addpart", c: c, pid: c.id*100 + int64(k), pname: pn}
				// the partition was dropped upstream while CDC was down: each shard handler that resumed from a position
				// generates the drop-partition message itself (only for shards that are neither forwarded nor waiting)
				plain := len(c.waitv) == 0 && !lazy
				ss, ts := append([][2]string{}, c.src...), append([][2]string{}, c.tgt...)
				sort.Slice(ss, func(a, b int) bool { return ss[a][0] < ss[b][0] })
				sort.Slice(ts, func(a, b int) bool { return ts[a][0] < ts[b][0] })
				seenT := map[string]bool{}
				for j := range ss {
					if g.handlerTgt[ss[j][1]] != ts[j][1] || seenT[ts[j][1]] {
						plain = false // forwarded, or two generating handlers on one downstream channel (their order is the scheduler's)
					}
					seenT[ts[j][1]] = true
				}
				var gens []label
				if k == 1 && plain && r.Intn(3) == 0 {
					l.dropped = true
					if _, known := c.parts[pn]; known {
						for _, p := range c.src {
							if z := g.handlerSeek[p[1]]; z != 0 {
								gens = append(gens, label{kind: "feed", virtual: true, c: c, spch: p[1], svch: p[0], begin: z, end: z, nstart: 1,
									msgs: []smsg{{kind: "droppart", id: genDropPartID(c.tid, pn), coll: c.id, part: l.pid, pname: pn, ts: z, pospch: true}}})
							}
						}
					}
					l.ngen = len(gens)
					for _, st := range g.streams {
						if st.c == c {
							st.dropPart = true
						}
					}
				}
				g.labels = append(g.labels, l)
				g.labels = append(g.labels, gens...)
				g.added[fmt.Sprintf("%d/%s", c.id, pn)] = true
			}
		}
	}
	for i := 0; i < n; i++ {
		startOne(false)
	}
	nfeeds := 6 + r.Intn(18)
	dropBias := 4
	if mode == "c04" {
		dropBias = 12
	}
	for f := 0; f < nfeeds; f++ {
		if late && ncoll < 3 && r.Intn(4) == 0 {
			startOne(r.Intn(2) == 0)
		}
		var live []*stream
		for _, s := range g.streams {
			if !s.ended && !s.waiting {
				live = append(live, s)
			}
		}
		if len(live) == 0 {
			break
		}
		s := live[r.Intn(len(live))]
		l := label{kind: "feed", c: s.c, spch: s.spch, svch: s.svch, nstart: 1}
		l.begin = s.ts
		if s.first && r.Intn(4) == 0 {
			l.begin = 0
			if r.Intn(3) == 0 {
				l.nstart = 2
			}
		}
		s.first = false
		gap := uint64(1 + r.Intn(6))
		l.end = s.ts + gap
		nm := r.Intn(5)
		t := s.ts
		for j := 0; j < nm; j++ {
			if r.Intn(3) != 0 && t < l.end {
				t += 1 + uint64(r.Intn(int(l.end-t)))
			}
			if t == s.ts {
				t = s.ts + 1
			}
			if t > l.end {
				t = l.end
			}
			x := r.Intn(100)
			m := smsg{id: g.id(), coll: s.c.id, ts: t, pospch: r.Intn(2) == 0}
			pk := r.Intn(3) // partition 0 = _default
			pnames := []string{"_default", "p1", "p2"}
			m.part, m.pname = s.c.id*100+int64(pk), pnames[pk]
			known := func() bool { _, ok := s.c.parts[m.pname]; return ok }
			switch {
			case x < 55:
				m.kind, m.rows = "insert", 1+r.Intn(3)
				if !known() {
					if lazy && m.pname == "p1" && len(l.answers) == 0 {
						// the downstream learns the partition now: the first refresh answers with it
						s.c.parts["p1"] = s.c.tid*100 + 1
						l.answers = []map[string]int64{copyMap(s.c.parts)}
					} else {
						m.part, m.pname = s.c.id*100, "_default"
					}
				}
			case x < 72:
				m.kind, m.rows = "delete", 1+r.Intn(3)
				if r.Intn(4) == 0 {
					m.pname = "" // a delete without partition name keeps its partition id
				} else if (mode == "c02" || mode == "c06") && r.Intn(12) == 0 {
					m.part, m.pname = s.c.id*100+9, "p9" // a partition the downstream never learns: the pack is an error
				} else if !known() {
					m.part, m.pname = s.c.id*100, "_default"
				}
			case x < 76 && !g.added[fmt.Sprintf("%d/p1", s.c.id)] && !g.added[fmt.Sprintf("%d/p2", s.c.id)]:
				// an import names as many partitions as the downstream has (else the map is refreshed, then it is an error)
				m.kind, m.part, m.pname, m.rows = "import", 0, "", len(s.c.parts)
				if r.Intn(6) == 0 && len(l.answers) == 0 {
					m.rows++
					if r.Intn(2) == 0 {
						s.c.parts["late"] = s.c.tid*100 + 9
						l.answers = []map[string]int64{copyMap(s.c.parts)}
					}
				}
			case x < 80:
				m.kind, m.id = "tick", 0
			case x < 84:
				m.kind = "createpart"
			case x < 88:
				m.kind = "other"
			case x < 88+dropBias:
				// drop partition p1: only when it was announced and is known downstream, once per shard
				if g.added[fmt.Sprintf("%d/p1", s.c.id)] && !s.dropPart {
					if _, ok := s.c.parts["p1"]; ok {
						m.kind, m.part, m.pname = "droppart", s.c.id*100+1, "p1"
						s.dropPart = true
						break
					}
				}
				m.kind, m.rows, m.part, m.pname = "insert", 1, s.c.id*100, "_default"
			default:
				if r.Intn(3) == 0 || mode == "c04" {
					m.kind, m.part, m.pname = "dropcoll", 0, ""
					s.ended = true
				} else {
					m.kind, m.rows, m.part, m.pname = "insert", 1, s.c.id*100, "_default"
				}
			}
			// after its drop partition message a shard sends nothing more for p1
			if s.dropPart && m.kind != "droppart" && m.pname == "p1" {
				m.part, m.pname = s.c.id*100, "_default"
			}
			l.msgs = append(l.msgs, m)
			if s.ended {
				break
			}
		}
		s.ts = l.end
		g.labels = append(g.labels, l)
	}
	if r.Intn(6) == 0 && len(g.colls) > 0 {
		g.labels = append(g.labels, label{kind: "stop", c: g.colls[r.Intn(len(g.colls))]})
	}
	if mode == "c13d" {
		// every plain start is notified twice at the same time
		for i := range g.labels {
			l := &g.labels[i]
			if l.kind == "start" && len(l.c.waitv) == 0 && l.ngen == 0 && len(l.wakes) == 0 {
				l.twice = true
			}
		}
	}
	return g.labels, 1
}

func copyMap(m map[string]int64) map[string]int64 {
	o := map[string]int64{}
	for k, v := range m {
		o[k] = v
	}
	return o
}

// corpus: hand-written scripts run first on every run
func corpus(out *cq.Out) {
	if *mode == "c13d" {
		// the same collection is notified twice at the same time (listed and watched, or two workers of the watch pool): one start
		ca := &coll{id: 1, tid: 9001, name: "c1", src: [][2]string{{"src-dml_0_1v0", "src-dml_0"}, {"src-dml_1_1v1", "src-dml_1"}},
			tgt: [][2]string{{"tgt-dml_0_9001v0", "tgt-dml_0"}, {"tgt-dml_1_9001v1", "tgt-dml_1"}}, parts: map[string]int64{"_default": 900100}}
		i1 := func(id uint64, ts uint64) smsg {
			return smsg{kind: "insert", id: id, coll: 1, part: 100, pname: "_default", ts: ts, rows: 2}
		}
		f := func(sh int, b, e uint64, ms ...smsg) label {
			return label{kind: "feed", c: ca, spch: ca.src[sh][1], svch: ca.src[sh][0], begin: b, end: e, nstart: 1, msgs: ms}
		}
		runCase(out, 1, []label{{kind: "start", c: ca, twice: true}, f(0, 100, 104, i1(1, 102)), f(1, 300, 303, i1(2, 302)), f(0, 104, 106)},
			"corpus: a collection notified twice at the same time is started once")
		return
	}
	c1 := &coll{id: 1, tid: 9001, name: "c1", src: [][2]string{{"src-dml_0_1v0", "src-dml_0"}}, tgt: [][2]string{{"tgt-dml_0_9001v0", "tgt-dml_0"}},
		parts: map[string]int64{"_default": 900100, "p1": 900101}}
	ins := func(id uint64, ts uint64) smsg {
		return smsg{kind: "insert", id: id, coll: 1, part: 100, pname: "_default", ts: ts, rows: 2}
	}
	feed := func(c *coll, sh int, b, e uint64, ms ...smsg) label {
		return label{kind: "feed", c: c, spch: c.src[sh][1], svch: c.src[sh][0], begin: b, end: e, nstart: 1, msgs: ms}
	}
	// a data pack, then tick-only packs whose source time lies below the channel clock
	runCase(out, 1, []label{{kind: "start", c: c1}, feed(c1, 0, 100, 105, ins(1, 103), ins(2, 105)), feed(c1, 0, 105, 106), feed(c1, 0, 106, 107, ins(3, 107)), feed(c1, 0, 107, 108)},
		"corpus: tick-only packs after a shifted data pack")
	// two collections on one source channel, the second one lives on another downstream channel (forward path)
	a := &coll{id: 1, tid: 9001, name: "c1", src: [][2]string{{"src-dml_0_1v0", "src-dml_0"}, {"src-dml_1_1v1", "src-dml_1"}},
		tgt: [][2]string{{"tgt-dml_0_9001v0", "tgt-dml_0"}, {"tgt-dml_1_9001v1", "tgt-dml_1"}}, parts: map[string]int64{"_default": 900100}}
	b := &coll{id: 2, tid: 9002, name: "c2", src: [][2]string{{"src-dml_0_2v0", "src-dml_0"}}, tgt: [][2]string{{"tgt-dml_1_9002v0", "tgt-dml_1"}},
		parts: map[string]int64{"_default": 900200}}
	ib := func(id uint64, ts uint64) smsg {
		return smsg{kind: "insert", id: id, coll: 2, part: 200, pname: "_default", ts: ts, rows: 1, pospch: id%2 == 0}
	}
	runCase(out, 1, []label{{kind: "start", c: a}, {kind: "start", c: b}, feed(a, 0, 100, 104, ins(1, 102)), feed(b, 0, 2000, 2003, ib(2, 2002)),
		feed(b, 0, 2003, 2004), feed(a, 1, 300, 302, ins(3, 301)), feed(b, 0, 2004, 2006, ib(4, 2005), ib(5, 2006))},
		"corpus: forward path (second collection of a source channel on another downstream channel)")
	// two and two channels: the handler of the second collection finds its downstream channel taken and waits; the third
	// collection (first source channel, second downstream channel) makes the manager forward the free channel to it; the second
	// collection's messages must still arrive on the channel that hosts its virtual channel
	wa := &coll{id: 1, tid: 9001, name: "c1", src: [][2]string{{"src-dml_0_1v0", "src-dml_0"}}, tgt: [][2]string{{"tgt-dml_0_9001v0", "tgt-dml_0"}}, parts: map[string]int64{"_default": 900100}}
	wb := &coll{id: 2, tid: 9002, name: "c2", src: [][2]string{{"src-dml_1_2v0", "src-dml_1"}}, tgt: [][2]string{{"tgt-dml_0_9002v0", "tgt-dml_0"}}, parts: map[string]int64{"_default": 900200},
		waitv: map[string]bool{"src-dml_1_2v0": true}}
	wc := &coll{id: 3, tid: 9003, name: "c3", src: [][2]string{{"src-dml_0_3v0", "src-dml_0"}}, tgt: [][2]string{{"tgt-dml_1_9003v0", "tgt-dml_1"}}, parts: map[string]int64{"_default": 900300}}
	ic := func(id uint64, ts uint64) smsg {
		return smsg{kind: "insert", id: id, coll: 3, part: 300, pname: "_default", ts: ts, rows: 1}
	}
	runCase(out, 1, []label{{kind: "config", ns: 2, nt: 2}, {kind: "start", c: wa}, {kind: "start", c: wb}, feed(wa, 0, 100, 104, ins(1, 102)),
		{kind: "start", c: wc, wakes: []string{"src-dml_1_2v0"}}, feed(wb, 0, 2000, 2003, ib(2, 2002)), feed(wc, 0, 3000, 3003, ic(3, 3002)),
		feed(wb, 0, 2003, 2004), feed(wa, 0, 104, 106, ins(4, 105)), feed(wb, 0, 2004, 2006, ib(5, 2005), ib(6, 2006))},
		"corpus: a waiting handler is given another downstream channel (wait / forward path)")
	// a partition of a two-shard collection was dropped upstream while CDC was down: the task resumes from saved positions, the
	// catalog lists the partition as dropped, every shard handler generates the drop-partition message itself: one request
	rs := &coll{id: 1, tid: 9001, name: "c1", src: [][2]string{{"src-dml_0_1v0", "src-dml_0"}, {"src-dml_1_1v1", "src-dml_1"}},
		tgt: [][2]string{{"tgt-dml_0_9001v0", "tgt-dml_0"}, {"tgt-dml_1_9001v1", "tgt-dml_1"}}, parts: map[string]int64{"_default": 900100, "p1": 900101},
		seek: map[string]uint64{"src-dml_0": 50, "src-dml_1": 60}}
	gen := func(c *coll, sh int, z uint64) label {
		return label{kind: "feed", virtual: true, c: c, spch: c.src[sh][1], svch: c.src[sh][0], begin: z, end: z, nstart: 1,
			msgs: []smsg{{kind: "droppart", id: genDropPartID(c.tid, "p1"), coll: c.id, part: 101, pname: "p1", ts: z, pospch: true}}}
	}
	runCase(out, 1, []label{{kind: "start", c: rs}, feed(rs, 0, 100, 103, ins(1, 102)), {kind: "addpart", c: rs, pid: 101, pname: "p1", dropped: true, ngen: 2},
		gen(rs, 0, 50), gen(rs, 1, 60), feed(rs, 0, 103, 106, ins(2, 105)), feed(rs, 1, 300, 303, ins(3, 302))},
		"corpus: a partition dropped while CDC was down (generated drop-partition messages after resume)")
	if *mode == "c01" {
		// more downstream than source channels (2 and 4): the mapping key is the downstream channel; the second collection lives on
		// another source channel but on the same downstream channel, so the handler of that downstream channel reads both streams;
		// tick-only packs of the second stream must carry the second stream's label (checked on the trace, outside the model)
		ta := &coll{id: 1, tid: 9001, name: "c1", src: [][2]string{{"src-dml_0_1v0", "src-dml_0"}}, tgt: [][2]string{{"tgt-dml_0_9001v0", "tgt-dml_0"}}, parts: map[string]int64{"_default": 900100}}
		tb := &coll{id: 2, tid: 9002, name: "c2", src: [][2]string{{"src-dml_1_2v0", "src-dml_1"}}, tgt: [][2]string{{"tgt-dml_0_9002v0", "tgt-dml_0"}}, parts: map[string]int64{"_default": 900200}}
		runCase(out, 1, []label{{kind: "config", ns: 2, nt: 4}, {kind: "start", c: ta}, {kind: "start", c: tb}, feed(ta, 0, 100, 104, ins(1, 102)),
			feed(tb, 0, 2000, 2003), feed(ta, 0, 104, 106, ins(2, 105)), feed(tb, 0, 2003, 2004), feed(ta, 0, 106, 107)},
			"corpus: more downstream than source channels, two source streams on one downstream channel (trace check only)")
	}
	// a partition is registered as dropped while its handler is busy with a pack that another handler forwarded to it: the pack the
	// handler then generates must be handled like a pack of its own streams (re-addressed, counted by the barrier), not like a
	// forwarded one
	fa := &coll{id: 1, tid: 9001, name: "c1", src: [][2]string{{"src-dml_0_1v0", "src-dml_0"}}, tgt: [][2]string{{"tgt-dml_0_9001v0", "tgt-dml_0"}},
		parts: map[string]int64{"_default": 900100, "p1": 900101}, seek: map[string]uint64{"src-dml_0": 50}}
	fb := &coll{id: 2, tid: 9002, name: "c2", src: [][2]string{{"src-dml_1_2v0", "src-dml_1"}}, tgt: [][2]string{{"tgt-dml_1_9002v0", "tgt-dml_1"}}, parts: map[string]int64{"_default": 900200}}
	fc := &coll{id: 3, tid: 9003, name: "c3", src: [][2]string{{"src-dml_1_3v0", "src-dml_1"}}, tgt: [][2]string{{"tgt-dml_0_9003v0", "tgt-dml_0"}}, parts: map[string]int64{"_default": 900300}}
	i3 := func(id uint64, ts uint64) smsg {
		return smsg{kind: "insert", id: id, coll: 3, part: 300, pname: "_default", ts: ts, rows: 1}
	}
	fwdFeed := feed(fc, 0, 3000, 3003, i3(2, 3002))
	fwdFeed.parkFwd = true
	runCase(out, 1, []label{{kind: "start", c: fa}, {kind: "start", c: fb}, {kind: "start", c: fc}, feed(fa, 0, 100, 103, ins(1, 102)),
		fwdFeed, {kind: "addpart", c: fa, pid: 101, pname: "p1", dropped: true}, {kind: "resumets", begin: 3000, ngen: 1},
		label{kind: "feed", virtual: true, c: fa, spch: "src-dml_0", svch: "src-dml_0_1v0", begin: 50, end: 50, nstart: 1,
			msgs: []smsg{{kind: "droppart", id: genDropPartID(9001, "p1"), coll: 1, part: 101, pname: "p1", ts: 50, pospch: true}}},
		feed(fa, 0, 103, 106, ins(3, 105))},
		"corpus: a handler generates a drop-partition pack while it is busy with a forwarded pack")
	// a two-shard collection dropped upstream while CDC was down: the task resumes from saved positions, the catalog lists the
	// collection as dropped and the downstream still has it: every shard handler generates the drop-collection message: one request
	c1b := &coll{id: 2, tid: 9002, name: "c2", src: [][2]string{{"src-dml_0_2v0", "src-dml_0"}}, tgt: [][2]string{{"tgt-dml_0_9002v0", "tgt-dml_0"}}, parts: map[string]int64{"_default": 900200}}
	ib2 := func(id uint64, ts uint64) smsg {
		return smsg{kind: "insert", id: id, coll: 2, part: 200, pname: "_default", ts: ts, rows: 1}
	}
	rc := &coll{id: 1, tid: 9001, name: "c1", src: [][2]string{{"src-dml_0_1v0", "src-dml_0"}, {"src-dml_1_1v1", "src-dml_1"}},
		tgt: [][2]string{{"tgt-dml_0_9001v0", "tgt-dml_0"}, {"tgt-dml_1_9001v1", "tgt-dml_1"}}, parts: map[string]int64{"_default": 900100},
		seek: map[string]uint64{"src-dml_0": 50, "src-dml_1": 60}, dropped: true}
	genc := func(c *coll, sh int, z uint64) label {
		return label{kind: "feed", virtual: true, c: c, spch: c.src[sh][1], svch: c.src[sh][0], begin: z, end: z, nstart: 1,
			msgs: []smsg{{kind: "dropcoll", id: uint64(c.tid)*1000 + 999, coll: c.id, ts: z, pospch: true}}}
	}
	runCase(out, 1, []label{{kind: "start", c: rc, ngen: 2}, genc(rc, 0, 50), genc(rc, 1, 60), {kind: "start", c: c1b}, feed(c1b, 0, 100, 103, ib2(1, 102))},
		"corpus: a collection dropped while CDC was down (generated drop-collection messages after resume)")
	// a two-shard collection dropped: the event only after both shards
	d := &coll{id: 1, tid: 9001, name: "c1", src: [][2]string{{"src-dml_0_1v0", "src-dml_0"}, {"src-dml_1_1v1", "src-dml_1"}},
		tgt: [][2]string{{"tgt-dml_0_9001v0", "tgt-dml_0"}, {"tgt-dml_1_9001v1", "tgt-dml_1"}}, parts: map[string]int64{"_default": 900100, "p1": 900101}}
	dp := func(id uint64, ts uint64) smsg {
		return smsg{kind: "droppart", id: id, coll: 1, part: 101, pname: "p1", ts: ts}
	}
	dc := func(id uint64, ts uint64) smsg { return smsg{kind: "dropcoll", id: id, coll: 1, ts: ts} }
	runCase(out, 1, []label{{kind: "start", c: d}, {kind: "addpart", c: d, pid: 101, pname: "p1"}, feed(d, 0, 100, 103, ins(1, 102), dp(2, 103)), feed(d, 1, 300, 303, ins(3, 302)),
		feed(d, 1, 303, 305, dp(4, 304)), feed(d, 0, 103, 106, dc(5, 105)), feed(d, 1, 305, 308, ins(6, 306), dc(7, 308))},
		"corpus: partition and collection dropped on two shards")
	// a collection stopped and started again on the same manager (pause / resume of its task while another task keeps the
	// manager alive), its partition registered again, then dropped on both shards: one drop request
	runCase(out, 1, []label{{kind: "start", c: d}, {kind: "addpart", c: d, pid: 101, pname: "p1"}, feed(d, 0, 100, 103, ins(1, 102)),
		{kind: "stop", c: d}, {kind: "start", c: d}, {kind: "addpart", c: d, pid: 101, pname: "p1"},
		feed(d, 0, 103, 106, dp(2, 105)), feed(d, 1, 300, 303, ins(3, 302)), feed(d, 1, 303, 305, dp(4, 304))},
		"corpus: stop, start again, partition registered again and dropped")
	// a partition dropped and created again under its name: the new one is another downstream partition (the downstream has
	// carried out the drop, the create request makes a new one, and the first insert may come before the handler has been told)
	rp := &coll{id: 1, tid: 9001, name: "c1", src: [][2]string{{"src-dml_0_1v0", "src-dml_0"}}, tgt: [][2]string{{"tgt-dml_0_9001v0", "tgt-dml_0"}},
		parts: map[string]int64{"_default": 900100, "p1": 900101}}
	insP := func(id uint64, part int64, ts uint64) smsg {
		return smsg{kind: "insert", id: id, coll: 1, part: part, pname: "p1", ts: ts, rows: 1}
	}
	again := feed(rp, 0, 106, 113, insP(4, 102, 112))
	again.answers = []map[string]int64{{"_default": 900100, "p1": 900102}}
	runCase(out, 1, []label{{kind: "start", c: rp}, {kind: "addpart", c: rp, pid: 101, pname: "p1"}, feed(rp, 0, 100, 103, insP(1, 101, 102)),
		feed(rp, 0, 103, 106, smsg{kind: "droppart", id: 2, coll: 1, part: 101, pname: "p1", ts: 105}),
		{kind: "addpart", c: rp, pid: 102, pname: "p1"}, again}, "corpus: a partition dropped and created again under its name")
	// an insert into a partition the downstream never learns: the refresh fails, the pack is an error, the process survives
	e := &coll{id: 1, tid: 9001, name: "c1", src: [][2]string{{"src-dml_0_1v0", "src-dml_0"}}, tgt: [][2]string{{"tgt-dml_0_9001v0", "tgt-dml_0"}},
		parts: map[string]int64{"_default": 900100}}
	bad := smsg{kind: "insert", id: 2, coll: 1, part: 109, pname: "p9", ts: 106, rows: 1}
	runCase(out, 1, []label{{kind: "start", c: e}, feed(e, 0, 100, 104, ins(1, 102)), feed(e, 0, 104, 107, bad), feed(e, 0, 107, 109, ins(3, 108))},
		"corpus: unknown partition, retries exhausted (the stream goroutine used to dereference a nil pack)")
	// the same for a delete that names a partition the downstream never learns: an error, nothing is emitted for the pack
	badDel := smsg{kind: "delete", id: 2, coll: 1, part: 109, pname: "p9", ts: 106, rows: 2}
	runCase(out, 1, []label{{kind: "start", c: e}, feed(e, 0, 100, 104, ins(1, 102)), feed(e, 0, 104, 107, badDel), feed(e, 0, 107, 109, ins(3, 108))},
		"corpus: delete of an unknown partition, retries exhausted")
		// imports: one that names as many partitions as the downstream has, one that does not (refresh fails: an error, no pack)
	imp := func(id uint64, ts uint64, n int) smsg { return smsg{kind: "import", id: id, coll: 1, ts: ts, rows: n} }
	runCase(out, 1, []label{{kind: "start", c: e}, feed(e, 0, 100, 104, imp(1, 102, 1)), feed(e, 0, 104, 107, imp(2, 106, 3)), feed(e, 0, 107, 109, ins(3, 108))},
		"corpus: import with matching and with unresolvable partition count")
}
