package main

import (
	"os"

	"verifharness/lib/cq"
	"verifharness/lib/hx"
)

// two collections read from different source channels (two handlers) and written to the same downstream channel
func schedColls() (*coll, *coll) {
	a := &coll{id: 1, tid: 9001, name: "c1", src: [][2]string{{"src-dml_0_1v0", "src-dml_0"}}, tgt: [][2]string{{"tgt-dml_0_9001v0", "tgt-dml_0"}},
		parts: map[string]int64{"_default": 900100}}
	b := &coll{id: 2, tid: 9002, name: "c2", src: [][2]string{{"src-dml_1_2v0", "src-dml_1"}}, tgt: [][2]string{{"tgt-dml_0_9002v0", "tgt-dml_0"}},
		parts: map[string]int64{"_default": 900200}}
	return a, b
}

// the scheduling points a pack may be held at: "send" (between the channel lock and the enqueue) exists only in trees before
// the repair C03-enqueue-under-lock; VERIF_SCHED_SEND=1 adds it (used to replay that finding against such a tree)
func points() []string {
	if os.Getenv("VERIF_SCHED_SEND") == "1" {
		return []string{"max", "lock", "send"}
	}
	return []string{"max", "lock"}
}

func schedFeed(kind string, c *coll, b, e uint64, point string, ms ...smsg) label {
	return label{kind: kind, c: c, spch: c.src[0][1], svch: c.src[0][0], begin: b, end: e, nstart: 1, msgs: ms, point: point}
}

func schedCorpus(out *cq.Out) {
	a, b := schedColls()
	ia := func(id, ts uint64) smsg {
		return smsg{kind: "insert", id: id, coll: 1, part: 100, pname: "_default", ts: ts, rows: 1}
	}
	ib := func(id, ts uint64) smsg {
		return smsg{kind: "insert", id: id, coll: 2, part: 200, pname: "_default", ts: ts, rows: 1}
	}
	for _, pt := range points() {
		// a one-message pack of A is held; B's tick-only pack, then B's data pack overtake it
		runSched(out, []label{{kind: "start", c: a}, {kind: "start", c: b}, schedFeed("feed", a, 100, 104, "", ia(1, 102)), schedFeed("feed", b, 50, 60, "", ib(2, 55)),
			schedFeed("park", a, 104, 108, pt, ia(3, 106)), schedFeed("feed", b, 60, 61, ""), schedFeed("feed", b, 61, 70, "", ib(4, 65)),
			{kind: "resume", spch: a.src[0][1]}, schedFeed("feed", a, 108, 110, "")}, "corpus: held at "+pt)
		// the held pack is tick-only
		runSched(out, []label{{kind: "start", c: a}, {kind: "start", c: b}, schedFeed("feed", a, 100, 104, "", ia(1, 102)),
			schedFeed("park", a, 104, 108, pt), schedFeed("feed", b, 2000, 2010, "", ib(2, 2005), ib(3, 2005)),
			{kind: "resume", spch: a.src[0][1]}, schedFeed("feed", b, 2010, 2011, "")}, "corpus: tick-only pack held at "+pt)
	}
	// a pack of A has been timed and has its place in the channel's send order (it is held just before it is put on the queue)
	// while B's pack is computed: B's pack may not overtake it
	late := schedFeed("feed", b, 2000, 2010, "", ib(4, 2005))
	late.nowait = true
	runSched(out, []label{{kind: "start", c: a}, {kind: "start", c: b}, schedFeed("feed", a, 100, 104, "", ia(1, 102)), schedFeed("feed", b, 50, 60, "", ib(2, 55)),
		schedFeed("park", a, 104, 108, "send", ia(3, 106)), late, {kind: "resume", spch: a.src[0][1]}, schedFeed("feed", a, 108, 110, "")},
		"corpus: held at send while the other handler's pack is computed")
}

func genSched(a *hx.Args) []label {
	r := a.Rng
	ca, cb := schedColls()
	ls := []label{{kind: "start", c: ca}, {kind: "start", c: cb}}
	ts := map[*coll]uint64{ca: uint64(100 + r.Intn(3000)), cb: uint64(100 + r.Intn(3000))}
	id := uint64(0)
	pack := func(c *coll, kind, point string) label {
		b := ts[c]
		e := b + uint64(1+r.Intn(6))
		var ms []smsg
		n := r.Intn(4)
		t := b
		for j := 0; j < n; j++ {
			if r.Intn(3) != 0 && t < e {
				t += 1 + uint64(r.Intn(int(e-t)))
			}
			if t == b {
				t = b + 1
			}
			id++
			k := "insert"
			if r.Intn(4) == 0 {
				k = "delete"
			}
			ms = append(ms, smsg{kind: k, id: id, coll: c.id, part: c.id * 100, pname: "_default", ts: t, rows: 1 + r.Intn(2), pospch: r.Intn(2) == 0})
		}
		ts[c] = e
		return schedFeed(kind, c, b, e, point, ms...)
	}
	rounds := 2 + r.Intn(4)
	pts := points()
	for i := 0; i < rounds; i++ {
		x, y := ca, cb
		if r.Intn(2) == 0 {
			x, y = cb, ca
		}
		for j := r.Intn(2); j > 0; j-- {
			ls = append(ls, pack(x, "feed", ""))
		}
		ls = append(ls, pack(x, "park", pts[r.Intn(len(pts))]))
		for j := 1 + r.Intn(3); j > 0; j-- {
			ls = append(ls, pack(y, "feed", ""))
		}
		ls = append(ls, label{kind: "resume", spch: x.src[0][1]})
	}
	ls = append(ls, pack(ca, "feed", ""), pack(cb, "feed", ""))
	return ls
}
