// h_c07r: the real MilvusDataHandler (core/writer/milvus_handler.go) against an in-process gRPC Milvus: the replicate call
// reports a downstream failure - an RPC error, an error status, a cancelled context before the call - to its caller and hands
// back the downstream position only after a success.
package main

import (
	"context"
	"fmt"
	"net"
	"sync/atomic"

	"github.com/milvus-io/milvus-proto/go-api/v2/commonpb"
	"github.com/milvus-io/milvus-proto/go-api/v2/milvuspb"
	"github.com/milvus-io/milvus-proto/go-api/v2/msgpb"
	"google.golang.org/grpc"
	"google.golang.org/grpc/codes"
	"google.golang.org/grpc/status"

	"github.com/zilliztech/milvus-cdc/core/api"
	"github.com/zilliztech/milvus-cdc/core/config"
	"github.com/zilliztech/milvus-cdc/core/writer"

	"verifharness/lib/cq"
	"verifharness/lib/hx"
)

type fakeMilvus struct {
	milvuspb.UnimplementedMilvusServiceServer
	mode  atomic.Int32 // 0 ok, 1 rpc error, 2 error status
	calls atomic.Int32
}

func (f *fakeMilvus) Connect(ctx context.Context, r *milvuspb.ConnectRequest) (*milvuspb.ConnectResponse, error) {
	return &milvuspb.ConnectResponse{Status: &commonpb.Status{}, ServerInfo: &commonpb.ServerInfo{BuildTags: "v2.5.0"}, Identifier: 7}, nil
}

func (f *fakeMilvus) ReplicateMessage(ctx context.Context, r *milvuspb.ReplicateMessageRequest) (*milvuspb.ReplicateMessageResponse, error) {
	f.calls.Add(1)
	switch f.mode.Load() {
	case 1:
		return nil, status.Error(codes.Internal, "downstream refuses")
	case 2:
		return &milvuspb.ReplicateMessageResponse{Status: &commonpb.Status{ErrorCode: commonpb.ErrorCode_UnexpectedError, Code: 65535, Reason: "downstream refuses"}}, nil
	}
	return &milvuspb.ReplicateMessageResponse{Status: &commonpb.Status{}, Position: "pos-" + r.GetChannelName()}, nil
}

func main() {
	a := hx.Parse()
	config.InitCommonConfig(func(c *config.CommonConfig) {
		c.Retry = config.RetrySettings{RetryTimes: 1, InitBackOff: 1, MaxBackOff: 1}
	})
	lis, err := net.Listen("tcp", "127.0.0.1:0")
	if err != nil {
		panic(err)
	}
	fm := &fakeMilvus{}
	gs := grpc.NewServer()
	milvuspb.RegisterMilvusServiceServer(gs, fm)
	go func() { _ = gs.Serve(lis) }()
	uri := fmt.Sprintf("http://127.0.0.1:%d", lis.Addr().(*net.TCPAddr).Port)
	h, err := writer.NewMilvusDataHandler(writer.URIOption(uri), writer.ConnectTimeoutOption(5))
	if err != nil {
		panic(err)
	}
	out := cq.NewOut(a.Out, "From Verif Require Import C07.RCheck.", "rcase", 200)
	r := a.Rng
	for i := 0; i < a.N; i++ {
		kind := i % 4 // every fourth case each; the order of the parameters is random
		ch := fmt.Sprintf("tgt-dml_%d", r.Intn(4))
		param := &api.ReplicateMessageParam{ChannelName: ch, BeginTs: uint64(100 + r.Intn(100)), EndTs: uint64(300 + r.Intn(100)),
			MsgsBytes: [][]byte{{1, 2, byte(i)}}, StartPositions: []*msgpb.MsgPosition{{ChannelName: ch, MsgID: []byte{1}}},
			EndPositions: []*msgpb.MsgPosition{{ChannelName: ch, MsgID: []byte{2}}}, MsgBaseParam: api.MsgBaseParam{Base: &commonpb.MsgBase{}}}
		ctx, cancel := context.WithCancel(context.Background())
		before := fm.calls.Load()
		switch kind {
		case 0:
			fm.mode.Store(0)
		case 1:
			fm.mode.Store(1)
		case 2:
			fm.mode.Store(2)
		case 3:
			fm.mode.Store(0)
			cancel() // the task is being stopped: the context is cancelled when the handler picks the pack up
		}
		e := h.ReplicateMessage(ctx, param)
		cancel()
		reached := fm.calls.Load() > before
		out.Add(fmt.Sprintf("{| rr_kind := %s; rr_err := %s; rr_pos := %s; rr_reached := %s |}", cq.Ni(kind), cq.Bool(e != nil),
			cq.Bool(param.TargetMsgPosition == "pos-"+ch), cq.Bool(reached)))
		out.Count(fmt.Sprintf("kind=%d", kind))
		if kind != 0 {
			out.NonTrivial(fmt.Sprintf("%d/%d", kind, i))
		}
	}
	if err := out.Flush(); err != nil {
		panic(err)
	}
	gs.Stop()
}
