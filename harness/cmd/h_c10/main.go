// h_c10: drives server.MetaCDC (Create / Delete / restart+ReloadTask) over an in-memory meta store and an
// injected replicate entity, and records after every call the response class, the duplicate-detection
// bookkeeping, the stored tasks and both selection paths over the whole (database, collection) universe.
package main

import (
	"errors"
	"fmt"
	"sort"
	"strings"

	"github.com/zilliztech/milvus-cdc/core/api"
	"github.com/zilliztech/milvus-cdc/core/config"
	coremodel "github.com/zilliztech/milvus-cdc/core/model"
	"github.com/zilliztech/milvus-cdc/core/pb"
	"github.com/zilliztech/milvus-cdc/server"
	servererror "github.com/zilliztech/milvus-cdc/server/error"
	"github.com/zilliztech/milvus-cdc/server/model"
	"github.com/zilliztech/milvus-cdc/server/model/meta"
	"github.com/zilliztech/milvus-cdc/server/model/request"
	"github.com/zilliztech/milvus-cdc/server/msgpacker"

	"github.com/milvus-io/milvus-proto/go-api/v2/schemapb"

	"verifharness/lib/cq"
	"verifharness/lib/hx"
	"verifharness/lib/sfake"
)

var targets = []string{"127.0.0.1:19092", "127.0.0.1:19093"}
var dbs = []string{"default", "db1", "db2"}
var colls = []string{"c1", "c2", "c3"}

type nm struct{ db, coll string }

func (n nm) coq() string { return cq.Pair(cq.Str(n.db), cq.Str(n.coll)) }
func parseFull(s string) nm {
	p := strings.SplitN(s, ".", 2)
	return nm{p[0], p[1]}
}
func names(ss []string) string {
	sort.Strings(ss)
	return cq.MapList(ss, func(s string) string { return parseFull(s).coq() })
}

type creq struct {
	id, target string
	form       bool
	name       nm
	role       bool
	aoff       bool // disable_auto_start: the task is created, and reloaded after a restart, without being started
	mapping    []nm
	fault      string // none list limit put
}

type oper struct {
	kind  string // create delete restart
	c     creq
	id    string
	fault string // delete: none get commit
}

type sys struct {
	w   *sfake.World
	cfg *server.CDCServerConfig
	cdc *server.MetaCDC
}

func (s *sys) boot() {
	s.w.Mu.Lock()
	s.w.Epoch++
	ep := s.w.Epoch
	s.w.Mu.Unlock()
	s.cdc = server.NewVerifMetaCDC(s.cfg, &sfake.Factory{W: s.w, Epoch: ep}, nil)
	s.entities()
}

// entities (re-)injects the fake replicate entity of every target that has none (an entity is released
// when its last task stops; the real constructor would dial etcd / the MQ)
func (s *sys) entities() {
	have := map[string]bool{}
	for _, e := range s.cdc.VerifSnapshot().Entities {
		have[e.Key] = true
	}
	for _, t := range targets {
		if !have[t] {
			s.cdc.VerifPutEntity(t, sfake.NewCM(s.w), nil, &sfake.MetaOp{DefaultMetaOp: &api.DefaultMetaOp{}}, &sfake.Writer{DefaultWriter: &api.DefaultWriter{}, W: s.w}, sfake.NewDisp(s.w))
		}
	}
}

func code(err error) int {
	if err == nil {
		return 0
	}
	if errors.Is(err, servererror.ClientErr) {
		return 1
	}
	return 2
}

func mkReq(c creq) *request.CreateRequest {
	r := &request.CreateRequest{TaskID: c.id, KafkaConnectParam: model.KafkaConnectParam{Address: c.target, Topic: "t"},
		ExtraInfo: model.ExtraInfo{EnableUserRole: c.role}, DisableAutoStart: c.aoff}
	if c.form {
		r.CollectionInfos = []model.CollectionInfo{{Name: c.name.coll}}
	} else {
		r.DBCollections = map[string][]model.CollectionInfo{c.name.db: {{Name: c.name.coll}}}
	}
	for _, m := range c.mapping {
		mp := model.NameMapping{SourceDB: m.db, TargetDB: "tdb"}
		if m.coll != "*" {
			mp.CollectionMapping = map[string]string{m.coll: m.coll + "x"}
		}
		r.NameMapping = append(r.NameMapping, mp)
	}
	return r
}

func (s *sys) observe(univ []nm, c int) string {
	snap := s.cdc.VerifSnapshot()
	var books []string
	for _, t := range targets {
		books = append(books, fmt.Sprintf("{| ob_target := %s; ob_data := %s; ob_excl := %s; ob_extra := %s |}",
			cq.Str(t), names(append([]string{}, snap.Data[t]...)), names(append([]string{}, snap.Exclude[t]...)), cq.Bool(snap.Extra[t])))
	}
	infos := s.w.TaskInfos()
	var ids []string
	for id := range infos {
		ids = append(ids, id)
	}
	sort.Strings(ids)
	var tasks []string
	for _, id := range ids {
		ti := infos[id]
		rd := server.GetShouldReadFunc(ti)
		var a, b []string
		for _, p := range univ {
			_, ok := rd(&coremodel.DatabaseInfo{Name: p.db}, &pb.CollectionInfo{Schema: &schemapb.CollectionSchema{Name: p.coll}})
			a = append(a, cq.Bool(ok))
			ci := server.GetCollectionInfos(ti, p.db, p.coll)
			d := ci != nil && !(p.coll != "" && !server.MatchCollection(ti, ci, p.db, p.coll))
			b = append(b, cq.Bool(d))
		}
		tasks = append(tasks, fmt.Sprintf("{| ot_id := %s; ot_excl := %s; ot_read := %s; ot_ddl := %s |}",
			cq.Str(id), names(append([]string{}, ti.ExcludeCollections...)), cq.List(a), cq.List(b)))
	}
	return fmt.Sprintf("{| o_code := %s; o_books := %s; o_tasks := %s |}", cq.Ni(c), cq.List(books), cq.List(tasks))
}

func (s *sys) apply(o oper) int {
	s.entities()
	switch o.kind {
	case "create":
		old := s.cfg.MaxTaskNum
		switch o.c.fault {
		case "list":
			s.w.FailNext("task.get", 1)
		case "limit":
			s.cfg.MaxTaskNum = 0
		case "put":
			s.w.FailNext("task.put", 1)
		}
		_, err := s.cdc.Create(mkReq(o.c))
		s.cfg.MaxTaskNum = old
		s.w.ClearFaults()
		return code(err)
	case "delete":
		switch o.fault {
		case "get":
			s.w.FailNext("task.get", 1)
		case "commit":
			s.w.FailNext("txn.commit", 1)
		}
		_, err := s.cdc.Delete(&request.DeleteRequest{TaskID: o.id})
		s.w.ClearFaults()
		return code(err)
	default:
		s.boot()
		s.cdc.ReloadTask()
		return 0
	}
}

func opCoq(o oper) string {
	switch o.kind {
	case "create":
		f := map[string]string{"none": "FNone", "list": "FList", "limit": "FLimit", "put": "FPut"}[o.c.fault]
		return fmt.Sprintf("(Create {| q_id := %s; q_target := %s; q_form := %s; q_name := %s; q_role := %s; q_mapping := %s |} %s)",
			cq.Str(o.c.id), cq.Str(o.c.target), cq.Bool(o.c.form), o.c.name.coq(), cq.Bool(o.c.role),
			cq.MapList(o.c.mapping, func(n nm) string { return n.coq() }), f)
	case "delete":
		f := map[string]string{"none": "DNone", "get": "DGet", "commit": "DCommit"}[o.fault]
		return fmt.Sprintf("(Delete %s %s)", cq.Str(o.id), f)
	}
	return "Restart"
}

func runCase(out *cq.Out, ops []oper, tag string) {
	s := &sys{w: sfake.NewWorld(), cfg: &server.CDCServerConfig{MaxTaskNum: 1000,
		Retry:        config.RetrySettings{RetryTimes: 1, InitBackOff: 1, MaxBackOff: 1},
		SourceConfig: server.MilvusSourceConfig{ReplicateChan: "rpc-chan"},
		Packer:       msgpacker.PackerConfig{MaxCount: 2, TimerInterval: 3600000}}}
	s.boot()
	var univ []nm
	for _, d := range dbs {
		for _, c := range colls {
			univ = append(univ, nm{d, c})
		}
	}
	var opT, obT []string
	accepted, rejected, excl := 0, 0, 0
	for _, o := range ops {
		c := s.apply(o)
		opT = append(opT, opCoq(o))
		obT = append(obT, s.observe(univ, c))
		if o.kind == "create" {
			if c == 0 {
				accepted++
			} else {
				rejected++
			}
			out.Count(fmt.Sprintf("create=%d", c))
			out.Count("spec=" + specShape(o.c))
		} else {
			out.Count(fmt.Sprintf("%s=%d", o.kind, c))
		}
	}
	for _, ti := range s.w.TaskInfos() {
		excl += len(ti.ExcludeCollections)
	}
	term := fmt.Sprintf("{| c_targets := %s; c_univ := %s; c_ops := %s; c_obs := %s |}",
		cq.Strs(targets), cq.MapList(univ, func(n nm) string { return n.coq() }), cq.List(opT), cq.List(obT))
	out.Add(term)
	out.Count(fmt.Sprintf("ops=%d", len(ops)))
	if accepted >= 2 && (rejected > 0 || excl > 0) {
		out.NonTrivial(fmt.Sprint(ops))
	}
	out.Sample(map[string]interface{}{"tag": tag, "ops": opT, "last_observation": obT[len(obT)-1]})
	// let the abandoned incarnations' goroutines go
	_ = meta.TaskStateInitial
}

func specShape(c creq) string {
	d, k := "named", "named"
	if c.name.db == "*" {
		d = "*"
	} else if c.name.db == "default" {
		d = "default"
	}
	if c.name.coll == "*" {
		k = "*"
	}
	if c.form {
		d = "collection_infos"
	}
	return d + "." + k
}

func main() {
	a := hx.Parse()
	config.InitCommonConfig(func(c *config.CommonConfig) {
		c.Retry = config.RetrySettings{RetryTimes: 1, InitBackOff: 1, MaxBackOff: 1}
	})
	out := cq.NewOut(a.Out, "From Verif Require Import C10.Model.", "case", 150)
	mk := func(id, tg, db, coll string) oper {
		return oper{kind: "create", c: creq{id: id, target: tg, name: nm{db, coll}, fault: "none"}}
	}
	del := func(id string) oper { return oper{kind: "delete", id: id, fault: "none"} }
	// corpus: former violations, run first on every run
	runCase(out, []oper{mk("t01", "127.0.0.1:19092", "db1", "*"), mk("t02", "127.0.0.1:19092", "*", "c1")}, "corpus: partial wildcard overlap")
	runCase(out, []oper{mk("t01", "127.0.0.1:19092", "*", "c1"), mk("t02", "127.0.0.1:19092", "db1", "*")}, "corpus: partial wildcard overlap, other order")
	runCase(out, []oper{mk("t01", "127.0.0.1:19092", "db1", "c1"), mk("t02", "127.0.0.1:19092", "db1", "*"), mk("t03", "127.0.0.1:19092", "*", "*"),
		del("t01"), del("t02"), mk("t04", "127.0.0.1:19092", "db1", "*"), mk("t05", "127.0.0.1:19092", "db1", "c1")}, "corpus: exclusion of another task used as permission")
	{
		o := mk("t01", "127.0.0.1:19092", "db1", "c1")
		o.c.role = true
		o.c.fault = "limit"
		o2 := mk("t02", "127.0.0.1:19092", "db1", "c2")
		o2.c.role = true
		runCase(out, []oper{o, o2}, "corpus: user-role flag kept after a failed create")
		o3 := mk("t01", "127.0.0.1:19092", "db1", "c1")
		o3.c.role = true
		runCase(out, []oper{o3, del("t01"), o2}, "corpus: user-role flag kept after delete")
		runCase(out, []oper{o3, mk("t02", "127.0.0.1:19092", "db1", "c2"), {kind: "restart"}, func() oper { x := mk("t03", "127.0.0.1:19092", "db1", "c3"); x.c.role = true; return x }()}, "corpus: user-role flag lost by reload")
		// a task created with disable_auto_start stays known after a restart: a second task for its collection is still refused
		runCase(out, []oper{func() oper { x := mk("t01", "127.0.0.1:19092", "db1", "c1"); x.c.aoff = true; return x }(), mk("t02", "127.0.0.1:19092", "db2", "c2"), {kind: "restart"},
			mk("t03", "127.0.0.1:19092", "db1", "c1"), del("t01"), mk("t04", "127.0.0.1:19092", "db1", "c1")}, "corpus: a task that is not auto-started keeps its names over a restart")
		runCase(out, []oper{mk("t01", "127.0.0.1:19092", "db1", "c1"), mk("t02", "127.0.0.1:19092", "db1", "*"), mk("t03", "127.0.0.1:19092", "*", "*"), del("t03"), del("t01"), mk("t04", "127.0.0.1:19092", "db1", "c1")}, "corpus: shared exclude removed with one owner")
	}
	runCase(out, []oper{mk("t01", "127.0.0.1:19092", "db1", "c1"), mk("t02", "127.0.0.1:19092", "db1", "*"), mk("t03", "127.0.0.1:19092", "*", "*"),
		del("t02"), {kind: "restart"}, del("t01"), mk("t04", "127.0.0.1:19092", "db1", "*"), mk("t05", "127.0.0.1:19092", "db1", "c1")},
		"corpus: exclusion by *.* lets db1.c1 through although db1.* does not exclude it (needs a reload in the original code)")
	for id := 0; id < a.N; id++ {
		r := a.Rng
		nops := 2 + r.Intn(10)
		var ops []oper
		live := []creq{}
		next := 1
		focus := r.Intn(3) // concentrate names so that overlaps are frequent
		pickDB := func() string {
			if focus > 0 && r.Intn(3) != 0 {
				return []string{"db1", "*"}[r.Intn(2)]
			}
			return []string{"default", "db1", "db2", "*"}[r.Intn(4)]
		}
		pickColl := func() string {
			if focus > 0 && r.Intn(3) != 0 {
				return []string{"c1", "*"}[r.Intn(2)]
			}
			return []string{"c1", "c2", "c3", "*"}[r.Intn(4)]
		}
		for k := 0; k < nops; k++ {
			x := r.Intn(100)
			switch {
			case x < 62 || len(live) == 0:
				c := creq{id: fmt.Sprintf("t%02d", next), target: targets[r.Intn(10)/8], fault: "none"}
				next++
				c.name = nm{pickDB(), pickColl()}
				if c.name.db == "default" && r.Intn(2) == 0 {
					c.form = true
				}
				c.role = r.Intn(6) == 0
				c.aoff = r.Intn(4) == 0
				switch r.Intn(12) {
				case 0:
					c.mapping = []nm{{c.name.db, "c1"}}
					if c.name.db == "*" {
						c.mapping = []nm{{"db1", "c1"}}
					}
				case 1:
					c.mapping = []nm{{"db2", "*"}}
				}
				switch r.Intn(14) {
				case 0:
					c.fault = "list"
				case 1:
					c.fault = "limit"
				case 2:
					c.fault = "put"
				}
				if len(live) > 0 && r.Intn(15) == 0 { // same id as a live task: answered with that id, nothing changes
					c = live[r.Intn(len(live))]
					c.fault = "none"
					next--
				}
				ops = append(ops, oper{kind: "create", c: c})
			case x < 90:
				o := oper{kind: "delete", fault: "none"}
				if r.Intn(8) == 0 {
					o.id = "nobody"
				} else {
					o.id = live[r.Intn(len(live))].id
				}
				switch r.Intn(12) {
				case 0:
					o.fault = "get"
				case 1:
					o.fault = "commit"
				}
				ops = append(ops, o)
			default:
				ops = append(ops, oper{kind: "restart"})
			}
			// track liveness by a dry model: ask the real system afterwards instead (simplest: replay below)
			live = simulateLive(ops)
		}
		runCase(out, ops, "random")
	}
	out.Extra["corpus_cases"] = 8
	if err := out.Flush(); err != nil {
		panic(err)
	}
}

// simulateLive keeps the generator's idea of which task ids may exist (over-approximation: every create
// that is not fault-injected counts; the real answer is observed, this only steers the generator).
func simulateLive(ops []oper) []creq {
	var live []creq
	for _, o := range ops {
		switch o.kind {
		case "create":
			if o.c.fault == "none" {
				dup := false
				for _, l := range live {
					if l.id == o.c.id {
						dup = true
					}
				}
				if !dup {
					live = append(live, o.c)
				}
			}
		case "delete":
			if o.fault == "none" {
				var n []creq
				for _, l := range live {
					if l.id != o.id {
						n = append(n, l)
					}
				}
				live = n
			}
		}
	}
	return live
}
