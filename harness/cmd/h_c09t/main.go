// h_c09t: the reader's TargetClient (core/reader/target_client.go) against an in-process gRPC Milvus that records the database
// (the SDK's "dbname" header) and the collection of every call: GetCollectionInfo and GetPartitionInfo must ask the downstream for
// the task's name mapping applied ONCE to the source names - also when a mapped name is itself the source of another entry.
package main

import (
	"context"
	"fmt"
	"net"
	"sync"

	"github.com/milvus-io/milvus-proto/go-api/v2/commonpb"
	"github.com/milvus-io/milvus-proto/go-api/v2/milvuspb"
	"google.golang.org/grpc"
	"google.golang.org/grpc/metadata"

	"github.com/zilliztech/milvus-cdc/core/config"
	"github.com/zilliztech/milvus-cdc/core/reader"

	"verifharness/lib/cq"
	"verifharness/lib/hx"
)

type call struct{ method, db, coll string }

type fakeMilvus struct {
	milvuspb.UnimplementedMilvusServiceServer
	mu    sync.Mutex
	calls []call
}

func dbOf(ctx context.Context) string {
	md, _ := metadata.FromIncomingContext(ctx)
	if v := md.Get("dbname"); len(v) > 0 && v[0] != "" {
		return v[0]
	}
	return "default"
}
func (f *fakeMilvus) rec(ctx context.Context, m, c string) {
	f.mu.Lock()
	f.calls = append(f.calls, call{m, dbOf(ctx), c})
	f.mu.Unlock()
}
func (f *fakeMilvus) Connect(ctx context.Context, r *milvuspb.ConnectRequest) (*milvuspb.ConnectResponse, error) {
	return &milvuspb.ConnectResponse{Status: &commonpb.Status{}, ServerInfo: &commonpb.ServerInfo{BuildTags: "v2.5.0"}, Identifier: 7}, nil
}
func (f *fakeMilvus) DescribeCollection(ctx context.Context, r *milvuspb.DescribeCollectionRequest) (*milvuspb.DescribeCollectionResponse, error) {
	f.rec(ctx, "Describe", r.GetCollectionName())
	return &milvuspb.DescribeCollectionResponse{Status: &commonpb.Status{}, CollectionID: 77, VirtualChannelNames: []string{"ch1_77v0"}, PhysicalChannelNames: []string{"ch1"},
		CollectionName: r.GetCollectionName()}, nil
}
func (f *fakeMilvus) ShowPartitions(ctx context.Context, r *milvuspb.ShowPartitionsRequest) (*milvuspb.ShowPartitionsResponse, error) {
	f.rec(ctx, "ShowPartitions", r.GetCollectionName())
	return &milvuspb.ShowPartitionsResponse{Status: &commonpb.Status{}, PartitionNames: []string{"_default"}, PartitionIDs: []int64{7700}}, nil
}

type entry struct{ sdb, scoll, tdb, tcoll string }

func shapes() [][]entry {
	return [][]entry{
		nil,
		{{"db1", "c1", "tdb", "c1x"}},
		{{"db1", "*", "tdb", "*"}},
		{{"db9", "c9", "xdb", "y"}},
		{{"db1", "c1", "tdb", "c1x"}, {"db1", "*", "tdb2", "*"}},
		{{"default", "c1", "tdb", "c1x"}},
		// the mapped name is itself the source of another entry (two tasks sharing one downstream; swapped names)
		{{"db1", "*", "db2", "*"}, {"db2", "*", "db3", "*"}},
		{{"db1", "c1", "db1", "c2"}, {"db1", "c2", "db1", "c1"}},
		{{"db1", "c1", "db2", "c1"}, {"db2", "c1", "db3", "c9"}},
	}
}

func main() {
	a := hx.Parse()
	config.InitCommonConfig(func(c *config.CommonConfig) {
		c.Retry = config.RetrySettings{RetryTimes: 1, InitBackOff: 1, MaxBackOff: 1}
	})
	lis, err := net.Listen("tcp", "127.0.0.1:0")
	if err != nil {
		panic(err)
	}
	fm := &fakeMilvus{}
	gs := grpc.NewServer()
	milvuspb.RegisterMilvusServiceServer(gs, fm)
	go func() { _ = gs.Serve(lis) }()
	uri := fmt.Sprintf("http://127.0.0.1:%d", lis.Addr().(*net.TCPAddr).Port)
	out := cq.NewOut(a.Out, "From Verif Require Import Writer.Model C09.TCheck.", "tcase", 200)
	r := a.Rng
	sh := shapes()
	dbs := []string{"db1", "db2", "default", "", "db9"}
	colls := []string{"c1", "c2", "c9", "zz"}
	for i := 0; i < a.N; i++ {
		es := sh[i%len(sh)]
		tc, err := reader.NewTarget(context.Background(), reader.TargetConfig{URI: uri})
		if err != nil {
			panic(err)
		}
		m := map[string]string{}
		var nm []string
		for _, e := range es {
			m[e.sdb+"."+e.scoll] = e.tdb + "." + e.tcoll
			nm = append(nm, cq.Pair(cq.Pair(cq.Str(e.sdb), cq.Str(e.scoll)), cq.Pair(cq.Str(e.tdb), cq.Str(e.tcoll))))
		}
		tc.(*reader.TargetClient).UpdateNameMappings(m)
		db, coll := dbs[r.Intn(len(dbs))], colls[r.Intn(len(colls))]
		if len(es) > 0 && r.Intn(10) < 7 {
			// mostly a source name that the table mentions
			e := es[r.Intn(len(es))]
			db = e.sdb
			if e.scoll != "*" {
				coll = e.scoll
			}
		}
		whole := r.Intn(2) == 0
		fm.mu.Lock()
		fm.calls = nil
		fm.mu.Unlock()
		if whole {
			_, err = tc.GetCollectionInfo(context.Background(), coll, db)
		} else {
			_, err = tc.GetPartitionInfo(context.Background(), coll, db)
		}
		fm.mu.Lock()
		var cs []string
		for _, c := range fm.calls {
			cs = append(cs, fmt.Sprintf("(%s, (%s, %s))", cq.Str(c.method), cq.Str(c.db), cq.Str(c.coll)))
		}
		fm.mu.Unlock()
		out.Add(fmt.Sprintf("{| t_nm := %s; t_db := %s; t_coll := %s; t_whole := %s; t_ok := %s; t_calls := %s |}",
			cq.List(nm), cq.Str(db), cq.Str(coll), cq.Bool(whole), cq.Bool(err == nil), cq.List(cs)))
		out.Count(fmt.Sprintf("mapping shape %d", i%len(sh)))
		if len(es) > 1 {
			out.NonTrivial(fmt.Sprintf("%d/%s/%s/%v", i%len(sh), db, coll, whole))
		}
	}
	if err := out.Flush(); err != nil {
		panic(err)
	}
	gs.Stop()
}
