// h_c16: drives the real util.ChannelMapping and records what it answers.
package main

import (
	"fmt"

	"github.com/zilliztech/milvus-cdc/core/util"

	"verifharness/lib/cq"
	"verifharness/lib/hx"
)

type op struct {
	offer bool
	s, t  string
}

func runCase(o *cq.Out, sc, tc, ns, nt int, ops []op) {
	srcs := make([]string, ns)
	tgts := make([]string, nt)
	for i := range srcs {
		srcs[i] = fmt.Sprintf("s%d", i)
	}
	for j := range tgts {
		tgts[j] = fmt.Sprintf("t%d", j)
	}
	cm := util.NewChannelMapping(sc, tc)
	assigned := map[string]bool{}
	var opTerms, grids []string
	full := false
	for _, p := range ops {
		if p.offer {
			opTerms = append(opTerms, cq.App("OOffer", cq.Str(p.s), cq.Str(p.t)))
			key := cm.GetMapKey(p.s, p.t)
			if !assigned[key] {
				if cm.CheckKeyNotExist(p.s, p.t) {
					cm.AddKeyValue(p.s, p.t)
					assigned[key] = true
				} else {
					full = true
				}
			}
		} else {
			opTerms = append(opTerms, cq.App("OAdd", cq.Str(p.s), cq.Str(p.t)))
			cm.AddKeyValue(p.s, p.t)
			assigned[cm.GetMapKey(p.s, p.t)] = true
		}
		rows := make([]string, ns)
		for i, a := range srcs {
			cells := make([]string, nt)
			for j, b := range tgts {
				cells[j] = cq.Pair(cq.Bool(cm.CheckKeyExist(a, b)), cq.Bool(cm.CheckKeyNotExist(a, b)))
			}
			rows[i] = cq.List(cells)
		}
		grids = append(grids, cq.List(rows))
	}
	term := fmt.Sprintf("{| c_s := %s; c_t := %s; c_srcs := %s; c_tgts := %s; c_ops := %s; c_obs := %s |}",
		cq.Ni(sc), cq.Ni(tc), cq.Strs(srcs), cq.Strs(tgts), cq.List(opTerms), cq.List(grids))
	o.Add(term)
	switch {
	case sc == tc:
		o.Count("mode=same")
	case sc > tc:
		o.Count("mode=source-key")
	default:
		o.Count("mode=target-key")
	}
	o.Count(fmt.Sprintf("ops=%d", len(ops)))
	if full {
		o.Count("reached-full-channel")
		o.NonTrivial(fmt.Sprintf("%d/%d/%v", sc, tc, ops))
	}
	o.Sample(map[string]interface{}{"source_cnt": sc, "target_cnt": tc, "ops": fmt.Sprint(ops), "last_grid": grids[len(grids)-1:]})
}

func main() {
	a := hx.Parse()
	o := cq.NewOut(a.Out, "From Verif Require Import C16.Model.", "case", 400)
	if a.Tier == "thorough" {
		// exhaustive: counts <= 3 on both sides, names from a 3x3 grid, every offer sequence of length <= 3
		type pr struct{ s, t string }
		var pairs []pr
		for i := 0; i < 3; i++ {
			for j := 0; j < 3; j++ {
				pairs = append(pairs, pr{fmt.Sprintf("s%d", i), fmt.Sprintf("t%d", j)})
			}
		}
		for sc := 0; sc <= 3; sc++ {
			for tc := 0; tc <= 3; tc++ {
				for l := 1; l <= 3; l++ {
					idx := make([]int, l)
					for {
						ops := make([]op, l)
						for k := range ops {
							ops[k] = op{true, pairs[idx[k]].s, pairs[idx[k]].t}
						}
						runCase(o, sc, tc, 3, 3, ops)
						k := 0
						for k < l {
							idx[k]++
							if idx[k] < len(pairs) {
								break
							}
							idx[k] = 0
							k++
						}
						if k == l {
							break
						}
					}
				}
			}
		}
		o.Extra["exhaustive_part"] = "all (source_cnt,target_cnt) in 0..3 x 0..3, all offer sequences of length 1..3 over a 3x3 name grid"
	}
	for id := 0; id < a.N; id++ {
		sc, tc := a.Rng.Intn(9), a.Rng.Intn(9)
		ns, nt := 1+a.Rng.Intn(6), 1+a.Rng.Intn(6)
		onlyOffers := a.Rng.Intn(5) != 0
		nops := 1 + a.Rng.Intn(16)
		ops := make([]op, nops)
		for k := range ops {
			ops[k] = op{onlyOffers || a.Rng.Intn(3) != 0, fmt.Sprintf("s%d", a.Rng.Intn(ns)), fmt.Sprintf("t%d", a.Rng.Intn(nt))}
		}
		runCase(o, sc, tc, ns, nt, ops)
	}
	if err := o.Flush(); err != nil {
		panic(err)
	}
}
