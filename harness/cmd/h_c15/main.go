// h_c15: runs the real EtcdOp.GetAllDroppedObj against an embedded etcd filled by a catalog generator and writes the catalog
// (as the range reads return it) and the observed table as Coq cases.
package main

import (
	"context"
	"encoding/binary"
	"fmt"
	"sort"
	"strings"
	"time"

	"google.golang.org/protobuf/proto"

	"github.com/milvus-io/milvus-proto/go-api/v2/schemapb"

	"github.com/zilliztech/milvus-cdc/core/api"
	"github.com/zilliztech/milvus-cdc/core/config"
	"github.com/zilliztech/milvus-cdc/core/pb"
	"github.com/zilliztech/milvus-cdc/core/reader"
	"github.com/zilliztech/milvus-cdc/core/util"

	"verifharness/lib/cq"
	"verifharness/lib/efake"
	"verifharness/lib/hx"
)

type dbrec struct {
	id   int64
	name string
	tomb bool
}
type crec struct {
	keydb, id int64
	name      string
	state     pb.CollectionState
	create    uint64
	tomb      bool
}
type prec struct {
	coll, id int64
	name     string
	state    pb.PartitionState
	create   uint64
	tomb     bool
}
type tans struct {
	cname, origin, db string
	notfound          bool
}
type catalog struct {
	nowMs  int64
	dbs    []dbrec
	colls  []crec
	parts  []prec
	kafka  bool
	target []tans
}

type fakeTarget struct {
	*api.DefaultTargetAPI
	ans []tans
}

func (f *fakeTarget) GetDatabaseName(ctx context.Context, c, d string) (string, error) {
	for _, a := range f.ans {
		if a.cname == c && a.origin == d {
			if a.notfound {
				return "", util.NotFoundDatabase
			}
			return a.db, nil
		}
	}
	return d, nil
}

var tombstone = util.SuffixSnapshotTombstone

func cstate(s pb.CollectionState) string {
	switch s {
	case pb.CollectionState_CollectionCreating:
		return "SCreating"
	case pb.CollectionState_CollectionCreated:
		return "SCreated"
	case pb.CollectionState_CollectionDropping:
		return "SDropping"
	case pb.CollectionState_CollectionDropped:
		return "SDropped"
	}
	return "SOther"
}
func pstate(s pb.PartitionState) string {
	switch s {
	case pb.PartitionState_PartitionCreating:
		return "SCreating"
	case pb.PartitionState_PartitionCreated:
		return "SCreated"
	case pb.PartitionState_PartitionDropping:
		return "SDropping"
	case pb.PartitionState_PartitionDropped:
		return "SDropped"
	}
	return "SOther"
}

func smap(m map[string]uint64) string {
	ks := make([]string, 0, len(m))
	for k := range m {
		ks = append(ks, k)
	}
	sort.Strings(ks)
	o := make([]string, len(ks))
	for i, k := range ks {
		o[i] = cq.Pair(cq.Str(k), cq.N(m[k]))
	}
	return cq.List(o)
}

func run(et *efake.Etcd, out *cq.Out, seq int, cat *catalog, kind string) {
	ctx := context.Background()
	root := fmt.Sprintf("r%d", seq)
	base := root + "/meta/root-coord/"
	put := func(k string, v []byte) {
		if _, err := et.Cli.Put(ctx, k, string(v)); err != nil {
			panic(err)
		}
	}
	pm := func(m proto.Message) []byte { b, _ := proto.Marshal(m); return b }
	tso := make([]byte, 8)
	binary.BigEndian.PutUint64(tso, uint64(time.UnixMilli(cat.nowMs).UnixNano()))
	put(root+"/kv/gid/timestamp", tso)
	type kv struct {
		k string
		i int
	}
	var dk, ck, pk []kv
	for i, d := range cat.dbs {
		k := fmt.Sprintf(base+"database/db-info/%d", d.id)
		if d.tomb {
			put(k, tombstone)
		} else {
			put(k, pm(&pb.DatabaseInfo{Id: d.id, Name: d.name}))
		}
		dk = append(dk, kv{k, i})
	}
	for i, c := range cat.colls {
		k := fmt.Sprintf(base+"database/collection-info/%d/%d", c.keydb, c.id)
		if c.tomb {
			put(k, tombstone)
		} else {
			put(k, pm(&pb.CollectionInfo{ID: c.id, DbId: c.keydb, State: c.state, CreateTime: c.create, Schema: &schemapb.CollectionSchema{Name: c.name}}))
		}
		ck = append(ck, kv{k, i})
	}
	for i, p := range cat.parts {
		k := fmt.Sprintf(base+"partitions/%d/%d", p.coll, p.id)
		if p.tomb {
			put(k, tombstone)
		} else {
			put(k, pm(&pb.PartitionInfo{PartitionID: p.id, PartitionName: p.name, CollectionId: p.coll, State: p.state, PartitionCreatedTimestamp: p.create}))
		}
		pk = append(pk, kv{k, i})
	}
	// a later put under the same key overwrites: keep the last writer per key, then etcd key order
	last := func(l []kv) []kv {
		m := map[string]int{}
		for _, x := range l {
			m[x.k] = x.i
		}
		var o []kv
		for k, i := range m {
			o = append(o, kv{k, i})
		}
		sort.Slice(o, func(a, b int) bool { return o[a].k < o[b].k })
		return o
	}
	var target api.TargetAPI
	if !cat.kafka {
		target = &fakeTarget{DefaultTargetAPI: &api.DefaultTargetAPI{}, ans: cat.target}
	}
	op, err := reader.NewEtcdOpWithAddress([]string{et.Endpoint}, root, "meta", "_default",
		config.EtcdRetryConfig{Retry: config.RetrySettings{RetryTimes: 1, InitBackOff: 1, MaxBackOff: 1}}, target)
	if err != nil {
		panic(err)
	}
	res := op.(*reader.EtcdOp).GetAllDroppedObj()

	var dbs, colls, parts []string
	for _, x := range last(dk) {
		d := cat.dbs[x.i]
		n := "None"
		if !d.tomb {
			n = cq.Some(cq.Str(d.name))
		}
		dbs = append(dbs, fmt.Sprintf("{| d_id := %s; d_name := %s |}", cq.Z(d.id), n))
	}
	for _, x := range last(ck) {
		c := cat.colls[x.i]
		if c.tomb {
			continue
		}
		colls = append(colls, fmt.Sprintf("{| c_keydb := %s; c_id := %s; c_name := %s; c_state := %s; c_create := %s |}",
			cq.Z(c.keydb), cq.Z(c.id), cq.Str(c.name), cstate(c.state), cq.N(c.create)))
		out.Count("coll=" + cstate(c.state))
	}
	for _, x := range last(pk) {
		p := cat.parts[x.i]
		if p.tomb {
			continue
		}
		parts = append(parts, fmt.Sprintf("{| p_coll := %s; p_id := %s; p_name := %s; p_state := %s; p_create := %s |}",
			cq.Z(p.coll), cq.Z(p.id), cq.Str(p.name), pstate(p.state), cq.N(p.create)))
		out.Count("part=" + pstate(p.state))
	}
	tg := "None"
	if !cat.kafka {
		tg = cq.Some(cq.MapList(cat.target, func(a tans) string {
			ans := "TNotFound"
			if !a.notfound {
				ans = cq.App("TFound", cq.Str(a.db))
			}
			return fmt.Sprintf("(%s, %s, %s)", cq.Str(a.cname), cq.Str(a.origin), ans)
		}))
		out.Count("target=milvus")
	} else {
		out.Count("target=other")
	}
	out.Add(fmt.Sprintf("{| k_cat := {| now_ms := %s; dbs := %s; colls := %s; parts := %s; target := %s |}; k_db := %s; k_coll := %s; k_part := %s |}",
		cq.N(uint64(cat.nowMs)), cq.List(dbs), cq.List(colls), cq.List(parts), tg,
		smap(res[util.DroppedDatabaseKey]), smap(res[util.DroppedCollectionKey]), smap(res[util.DroppedPartitionKey])))
	out.Count("kind=" + kind)
	out.CountN("entries", len(res[util.DroppedCollectionKey])+len(res[util.DroppedPartitionKey])+len(res[util.DroppedDatabaseKey]))
	if len(res[util.DroppedCollectionKey])+len(res[util.DroppedPartitionKey]) > 0 {
		var sb strings.Builder
		fmt.Fprint(&sb, cat.dbs, cat.colls, cat.parts, cat.kafka, cat.target)
		out.NonTrivial(sb.String())
	}
}

func main() {
	a := hx.Parse()
	et := efake.Start()
	defer et.Stop()
	out := cq.NewOut(a.Out, "From Verif Require Import C15.Model.", "case", 200)
	seq := 0
	for _, c := range corpus() {
		run(et, out, seq, c, "corpus")
		seq++
	}
	for i := 0; i < a.N; i++ {
		run(et, out, seq, generate(a), "random")
		seq++
	}
	if err := out.Flush(); err != nil {
		panic(err)
	}
}
