package main

import (
	"github.com/zilliztech/milvus-cdc/core/pb"

	"verifharness/lib/hx"
)

var cstates = []pb.CollectionState{pb.CollectionState_CollectionCreated, pb.CollectionState_CollectionCreated, pb.CollectionState_CollectionDropped,
	pb.CollectionState_CollectionDropping, pb.CollectionState_CollectionCreating, pb.CollectionState_CollectionDropped}
var pstates = []pb.PartitionState{pb.PartitionState_PartitionCreated, pb.PartitionState_PartitionCreated, pb.PartitionState_PartitionDropped,
	pb.PartitionState_PartitionDropping, pb.PartitionState_PartitionCreating, pb.PartitionState_PartitionDropped}

const ms0 = 1700000000000

func corpus() []*catalog {
	def := dbrec{id: 1, name: "default"}
	db2 := dbrec{id: 2, name: "db2"}
	return []*catalog{
		// a dropped incarnation with a live namesake, a dropped one without, a live-only name
		{nowMs: ms0, dbs: []dbrec{def, db2}, colls: []crec{
			{keydb: 1, id: 10, name: "a", state: pb.CollectionState_CollectionDropped, create: 100},
			{keydb: 1, id: 11, name: "a", state: pb.CollectionState_CollectionCreated, create: 200},
			{keydb: 2, id: 12, name: "b", state: pb.CollectionState_CollectionCreated, create: 300},
			{keydb: 2, id: 13, name: "gone", state: pb.CollectionState_CollectionDropping, create: 310}},
			parts: []prec{{coll: 11, id: 110, name: "_default", state: pb.PartitionState_PartitionCreated, create: 200},
				{coll: 11, id: 111, name: "p1", state: pb.PartitionState_PartitionCreated, create: 210},
				{coll: 11, id: 112, name: "p2", state: pb.PartitionState_PartitionDropped, create: 220},
				{coll: 11, id: 113, name: "p2", state: pb.PartitionState_PartitionCreated, create: 230}}},
		// the same with a downstream that is not Milvus: the partition of default.a must not be filed under db2
		{nowMs: ms0, kafka: true, dbs: []dbrec{def, db2}, colls: []crec{
			{keydb: 1, id: 10, name: "a", state: pb.CollectionState_CollectionCreated, create: 100},
			{keydb: 2, id: 12, name: "b", state: pb.CollectionState_CollectionCreated, create: 300}},
			parts: []prec{{coll: 10, id: 112, name: "p2", state: pb.PartitionState_PartitionDropped, create: 220}}},
		// a database gone upstream, still present downstream under its old name
		{nowMs: ms0, dbs: []dbrec{def, {id: 3, tomb: true}}, colls: []crec{
			{keydb: 3, id: 20, name: "x", state: pb.CollectionState_CollectionDropped, create: 50}},
			target: []tans{{cname: "x", origin: "_tome", db: "old"}}},
		// ... and gone on both sides
		{nowMs: ms0, dbs: []dbrec{def, {id: 3, tomb: true}}, colls: []crec{
			{keydb: 3, id: 20, name: "x", state: pb.CollectionState_CollectionDropped, create: 50}},
			target: []tans{{cname: "x", origin: "_tome", notfound: true}}},
		// same names in two databases, only one of them dropped
		{nowMs: ms0, dbs: []dbrec{def, db2}, colls: []crec{
			{keydb: 1, id: 10, name: "a", state: pb.CollectionState_CollectionDropped, create: 100},
			{keydb: 2, id: 12, name: "a", state: pb.CollectionState_CollectionCreated, create: 300}}},
		// ambiguous keys: database a_b collection c (dropped) and database a collection b_c (live)
		{nowMs: ms0, dbs: []dbrec{{id: 1, name: "a_b"}, {id: 2, name: "a"}}, colls: []crec{
			{keydb: 1, id: 10, name: "c", state: pb.CollectionState_CollectionDropped, create: 100},
			{keydb: 2, id: 12, name: "b_c", state: pb.CollectionState_CollectionCreated, create: 300}}},
	}
}

func generate(a *hx.Args) *catalog {
	r := a.Rng
	c := &catalog{nowMs: ms0 + int64(r.Intn(1000000)), kafka: r.Intn(10) < 3}
	dbn := []string{"default", "db2", "db3"}
	cn := []string{"a", "b", "c"}
	pn := []string{"p1", "p2", "_default"}
	if r.Intn(20) == 0 {
		cn = append(cn, "a_b")
		dbn[2] = "db_3"
	}
	ndb := 1 + r.Intn(3)
	for i := 0; i < ndb; i++ {
		d := dbrec{id: int64(i + 1), name: dbn[i]}
		if i > 0 && r.Intn(10) == 0 {
			d.tomb = true
		}
		c.dbs = append(c.dbs, d)
	}
	ncoll := r.Intn(7)
	for i := 0; i < ncoll; i++ {
		k := crec{keydb: int64(1 + r.Intn(ndb)), id: int64(100 + r.Intn(8)), name: cn[r.Intn(len(cn))], state: cstates[r.Intn(len(cstates))],
			create: uint64(1 + r.Intn(5000))}
		if r.Intn(25) == 0 {
			k.keydb = 9 // a database that is not listed
		}
		if r.Intn(25) == 0 {
			k.tomb = true
		}
		c.colls = append(c.colls, k)
	}
	npart := r.Intn(7)
	for i := 0; i < npart; i++ {
		p := prec{coll: int64(100 + r.Intn(8)), id: int64(1000 + r.Intn(12)), name: pn[r.Intn(len(pn))], state: pstates[r.Intn(len(pstates))],
			create: uint64(1 + r.Intn(5000))}
		if len(c.colls) > 0 && r.Intn(4) != 0 {
			p.coll = c.colls[r.Intn(len(c.colls))].id
		}
		if r.Intn(25) == 0 {
			p.tomb = true
		}
		c.parts = append(c.parts, p)
	}
	if !c.kafka {
		for _, k := range c.colls {
			var origin string
			for _, d := range c.dbs {
				if d.id == k.keydb {
					origin = d.name
					if d.tomb {
						origin = "_tome"
					}
				}
			}
			if origin == "" {
				continue
			}
			switch {
			case origin == "_tome" && r.Intn(4) != 0:
				c.target = append(c.target, tans{cname: k.name, origin: origin, db: "old", notfound: r.Intn(3) == 0})
			case r.Intn(12) == 0:
				c.target = append(c.target, tans{cname: k.name, origin: origin, db: "moved", notfound: r.Intn(2) == 0})
			}
		}
	}
	return c
}
