// h_c06s: the real MetaCDC with the real CollectionReader (core/reader/collection_reader.go) over lib/sfake: create / resume
// with collections whose start fails, collections created while a task runs, a pause while a start is in flight.
// The fake channel manager records start / stop per collection and can hold a start (the real call looks the collection up
// downstream with retries, so a pause completing while a start is in flight is an ordinary schedule); the fake catalog keeps
// the subscription table of the real EtcdOp.  After every label: reply code, and per task what memory and store say
// (running, reason) and which collections are still started and not stopped.
package main

import (
	"errors"
	"fmt"
	"os"
	"sort"
	"strconv"
	"sync"
	"time"

	"github.com/zilliztech/milvus-cdc/core/api"
	"github.com/zilliztech/milvus-cdc/core/config"
	"github.com/zilliztech/milvus-cdc/server"
	servererror "github.com/zilliztech/milvus-cdc/server/error"
	"github.com/zilliztech/milvus-cdc/server/model"
	"github.com/zilliztech/milvus-cdc/server/model/meta"
	"github.com/zilliztech/milvus-cdc/server/model/request"
	"github.com/zilliztech/milvus-cdc/server/msgpacker"

	"verifharness/lib/cq"
	"verifharness/lib/hx"
	"verifharness/lib/sfake"
)

const target = "127.0.0.1:19092"

type cf struct {
	id   int
	fail bool
}

type lab struct {
	kind   string // load watch watchpause pause
	t      int
	create bool
	colls  []cf
	late   bool
	c      int
	fail   bool
}

type sys struct {
	w      *sfake.World
	cdc    *server.MetaCDC
	cat    *sfake.MetaOp
	cm     *sfake.CM
	prefix string
	gmu    sync.Mutex
	hold   int64       // the collection whose start is held
	until  func() bool // ... until this holds
	inGate chan struct{}
	slow   int // waits that ran into their limit
	cur    string
}

func (s *sys) id(t int) string { return fmt.Sprintf("%st%d", s.prefix, t) }

// collections 1..9 belong to task 1 (names a1..), 11..19 to task 2 (b1..)
func collName(id int) string {
	if id < 10 {
		return fmt.Sprintf("a%d", id)
	}
	return fmt.Sprintf("b%d", id-10)
}

// a task replicates every collection of its own database
func dbName(t int) string { return fmt.Sprintf("db%d", t) }

func (s *sys) addColl(id int) {
	for _, c := range s.cat.Colls {
		if c.ID == int64(id) {
			return
		}
	}
	s.cat.Colls = append(s.cat.Colls, s.coll(id))
	sort.Slice(s.cat.Colls, func(i, j int) bool { return s.cat.Colls[i].ID < s.cat.Colls[j].ID })
}

func (s *sys) coll(id int) sfake.Coll {
	return sfake.Coll{ID: int64(id), DB: dbName(id/10 + 1), DBID: int64(id/10 + 2), Name: collName(id), PChs: []string{"src-dml_0"},
		VChs: []string{fmt.Sprintf("src-dml_0_%dv0", id)}, CTime: 50}
}

func (s *sys) unsubs(t int) int {
	n := 0
	for _, e := range s.w.LogFrom(0) {
		if e.Kind == "unsub" && e.Key == s.id(t) {
			n++
		}
	}
	return n
}

func (s *sys) wait(f func() bool) {
	limit := 3 * time.Second
	if totalSlow >= 5 {
		limit = 500 * time.Millisecond // something is lost on this tree; don't spend the run waiting for it
	}
	dl := time.Now().Add(limit)
	for !f() {
		if time.Now().After(dl) {
			s.slow++
			totalSlow++
			fmt.Fprintln(os.Stderr, "wait ran into its limit:", s.prefix, s.cur)
			return
		}
		time.Sleep(200 * time.Microsecond)
	}
}

func (s *sys) gate(id int64) {
	s.gmu.Lock()
	h, u, ch := s.hold, s.until, s.inGate
	s.gmu.Unlock()
	if h != id || u == nil {
		return
	}
	if ch != nil {
		select {
		case ch <- struct{}{}:
		default:
		}
	}
	s.wait(u)
}

func (s *sys) setGate(id int64, until func() bool, ch chan struct{}) {
	s.gmu.Lock()
	s.hold, s.until, s.inGate = id, until, ch
	s.gmu.Unlock()
}

func code(err error) int {
	if err == nil {
		return 0
	}
	if errors.Is(err, servererror.ClientErr) {
		return 1
	}
	return 2
}

func (s *sys) running(t int) bool {
	for _, x := range s.cdc.VerifSnapshot().Tasks {
		if x.TaskID == s.id(t) {
			return x.State == meta.TaskStateRunning
		}
	}
	return false
}

// the entity of the target is dropped with its last running task; the next start would build a real one
func (s *sys) entity() {
	for _, e := range s.cdc.VerifSnapshot().Entities {
		if e.Key == target {
			return
		}
	}
	s.cdc.VerifPutEntity(target, s.cm, nil, s.cat, &sfake.Writer{DefaultWriter: &api.DefaultWriter{}, W: s.w}, sfake.NewDisp(s.w))
}

func (s *sys) apply(l lab) int {
	s.entity()
	s.cur = labCoq(l)
	for k := range s.cm.FailStart {
		delete(s.cm.FailStart, k)
	}
	switch l.kind {
	case "load":
		first := -1
		for i, c := range l.colls {
			s.cm.FailStart[int64(c.id)] = c.fail
			if c.fail && first < 0 {
				first = i
			}
		}
		base := s.unsubs(l.t)
		known := false
		for _, x := range s.cdc.VerifSnapshot().Tasks {
			known = known || x.TaskID == s.id(l.t)
		}
		if l.create && known {
			first = -1 // answered with the existing task: nothing is loaded
		}
		if l.late && first >= 0 && first+1 < len(l.colls) {
			s.setGate(int64(l.colls[first+1].id), func() bool { return s.unsubs(l.t) > base }, nil)
		}
		var err error
		if l.create {
			_, err = s.cdc.Create(&request.CreateRequest{TaskID: s.id(l.t), KafkaConnectParam: model.KafkaConnectParam{Address: target, Topic: "t"},
				DBCollections: map[string][]model.CollectionInfo{dbName(l.t): {{Name: "*"}}}})
		} else {
			_, err = s.cdc.Resume(&request.ResumeRequest{TaskID: s.id(l.t)})
		}
		s.setGate(0, nil, nil)
		if err == nil && first >= 0 {
			s.wait(func() bool { return s.unsubs(l.t) >= base+2 })
		}
		return code(err)
	case "watch":
		s.addColl(l.c)
		s.cm.FailStart[int64(l.c)] = l.fail
		was := s.running(l.t)
		base := s.unsubs(l.t)
		s.cat.Deliver(s.coll(l.c))
		if was && l.fail {
			s.wait(func() bool { return s.unsubs(l.t) >= base+2 })
		}
		return 0
	case "watchpause":
		s.addColl(l.c)
		base := s.unsubs(l.t)
		ch := make(chan struct{}, 1)
		s.setGate(int64(l.c), func() bool { return s.unsubs(l.t) > base }, ch)
		done := make(chan struct{})
		go func() {
			s.cat.Deliver(s.coll(l.c))
			close(done)
		}()
		select {
		case <-ch:
		case <-done:
		}
		_, err := s.cdc.Pause(&request.PauseRequest{TaskID: s.id(l.t)})
		<-done
		s.setGate(0, nil, nil)
		return code(err)
	default:
		_, err := s.cdc.Pause(&request.PauseRequest{TaskID: s.id(l.t)})
		return code(err)
	}
}

func (s *sys) observe(cd int) string {
	mem := map[string]server.VerifTask{}
	for _, x := range s.cdc.VerifSnapshot().Tasks {
		mem[x.TaskID] = x
	}
	stored := s.w.TaskInfos()
	last := map[int]string{}
	for _, e := range s.w.LogFrom(0) {
		if e.Kind == "start" || e.Kind == "stop" {
			id, _ := strconv.Atoi(e.Key)
			last[id] = e.Kind
		}
	}
	var vs []string
	for t := 1; t <= 2; t++ {
		m, ok := mem[s.id(t)]
		st := stored[s.id(t)]
		if !ok && st == nil {
			vs = append(vs, "None")
			continue
		}
		var act []string
		for id := (t-1)*10 + 1; id <= (t-1)*10+9; id++ {
			if last[id] == "start" {
				act = append(act, cq.Nat(id))
			}
		}
		run, reason := m.State == meta.TaskStateRunning, m.Reason != ""
		if !ok || st == nil || st.State != m.State || (st.Reason != "") != reason || (m.State != meta.TaskStateRunning && m.State != meta.TaskStatePaused) {
			// memory and store disagree (or an unexpected state): shown as a view no rule accepts
			run, reason = true, true
		}
		vs = append(vs, fmt.Sprintf("(Some (%s, %s, %s))", cq.Bool(run), cq.Bool(reason), cq.List(act)))
	}
	return fmt.Sprintf("(%s, %s)", cq.Nat(cd), cq.List(vs))
}

func labCoq(l lab) string {
	switch l.kind {
	case "load":
		var cs []string
		for _, c := range l.colls {
			cs = append(cs, fmt.Sprintf("(%s, %s)", cq.Nat(c.id), cq.Bool(c.fail)))
		}
		return fmt.Sprintf("(LLoad %d %s %s %s)", l.t, cq.Bool(l.create), cq.List(cs), cq.Bool(l.late))
	case "watch":
		return fmt.Sprintf("(LWatch %d %d %s)", l.t, l.c, cq.Bool(l.fail))
	case "watchpause":
		return fmt.Sprintf("(LWatchPause %d %d)", l.t, l.c)
	}
	return fmt.Sprintf("(LPause %d)", l.t)
}

var caseNo, totalSlow int

// a script names the labels without the catalog-dependent parts; run fills in the collections of a load from the catalog
type sop struct {
	kind   string
	t      int
	create bool
	fails  map[int]bool // collections whose start fails in this load
	late   bool
	c      int
	fail   bool
	init   []int // create: the task's collections that exist already
}

func runCase(out *cq.Out, ops []sop, tag string) {
	caseNo++
	w := sfake.NewWorld()
	s := &sys{w: w, prefix: fmt.Sprintf("k%d", caseNo), cat: &sfake.MetaOp{DefaultMetaOp: &api.DefaultMetaOp{}, W: w}, cm: sfake.NewCM(w)}
	s.cm.Gate = s.gate
	cfg := &server.CDCServerConfig{MaxTaskNum: 100, Retry: config.RetrySettings{RetryTimes: 1, InitBackOff: 1, MaxBackOff: 1},
		SourceConfig: server.MilvusSourceConfig{ReplicateChan: "rpc-chan"}, Packer: msgpacker.PackerConfig{MaxCount: 2, TimerInterval: 3600000}}
	s.cdc = server.NewVerifMetaCDC(cfg, &sfake.Factory{W: w, Epoch: w.Epoch}, nil)
	var opT, obT []string
	failing, late := 0, 0
	for _, o := range ops {
		l := lab{kind: o.kind, t: o.t, create: o.create, late: o.late, c: o.c, fail: o.fail}
		if o.kind == "load" {
			for _, id := range o.init {
				s.addColl(id)
			}
			for _, c := range s.cat.Colls {
				if int(c.ID)/10 == o.t-1 {
					l.colls = append(l.colls, cf{int(c.ID), o.fails[int(c.ID)]})
					if o.fails[int(c.ID)] {
						failing++
					}
				}
			}
			if o.late {
				late++
			}
		}
		if o.kind == "watch" && o.fail {
			failing++
		}
		if o.kind == "watchpause" {
			late++
		}
		cd := s.apply(l)
		out.Count(fmt.Sprintf("%s=%d", o.kind, cd))
		opT = append(opT, labCoq(l))
		obT = append(obT, s.observe(cd))
	}
	if s.slow > 0 {
		out.Count("waits that ran into their limit")
	}
	out.Add(fmt.Sprintf("{| sc_tasks := [1; 2]; sc_ops := %s; sc_obs := %s |}", cq.List(opT), cq.List(obT)))
	if failing > 0 && len(ops) >= 3 {
		out.NonTrivial(fmt.Sprint(opT))
	}
	if late > 0 {
		out.Count("cases with a start completing after the quit")
	}
	out.Sample(map[string]interface{}{"tag": tag, "ops": opT, "last_observation": obT[len(obT)-1]})
}

func main() {
	a := hx.Parse()
	config.InitCommonConfig(func(c *config.CommonConfig) {
		c.Retry = config.RetrySettings{RetryTimes: 1, InitBackOff: 1, MaxBackOff: 1}
	})
	out := cq.NewOut(a.Out, "From Verif Require Import C06.SCheck.", "scase", 100)
	r := a.Rng
	// corpus
	runCase(out, []sop{{kind: "load", t: 2, create: true, init: []int{11}}, {kind: "load", t: 1, create: true, init: []int{1, 2, 3}, fails: map[int]bool{1: true}, late: true}},
		"corpus: the first start fails, the others complete after the pause")
	runCase(out, []sop{{kind: "load", t: 2, create: true, init: []int{11}}, {kind: "load", t: 1, create: true, init: []int{1, 2}, fails: map[int]bool{2: true}},
		{kind: "load", t: 1}, {kind: "watchpause", t: 1, c: 3}, {kind: "load", t: 1}}, "corpus: the last start fails; resume; a pause while a start is in flight")
	for i := 0; i < a.N; i++ {
		var ops []sop
		exists := map[int]bool{}
		next := map[int]int{1: 1, 2: 11}
		state := map[int]string{} // the generator's guess, steers the choice only
		mkLoad := func(t int, create bool) sop {
			o := sop{kind: "load", t: t, create: create, fails: map[int]bool{}, late: r.Intn(2) == 0}
			if create {
				for k := 1 + r.Intn(3); k > 0; k-- {
					o.init = append(o.init, next[t])
					exists[next[t]] = true
					next[t]++
				}
			}
			if r.Intn(5) < 2 {
				for id := (t-1)*10 + 1; id < next[t]; id++ {
					if r.Intn(3) == 0 {
						o.fails[id] = true
					}
				}
				if len(o.fails) == 0 {
					o.fails[(t-1)*10+1+r.Intn(next[t]-(t-1)*10-1)] = true
				}
			}
			if len(o.fails) > 0 {
				state[t] = "paused"
			} else {
				state[t] = "running"
			}
			return o
		}
		ops = append(ops, mkLoad(2-i%2, true))
		n := 2 + r.Intn(6)
		for k := 0; k < n; k++ {
			t := 1 + r.Intn(2)
			switch {
			case state[t] == "":
				ops = append(ops, mkLoad(t, true))
			case state[t] == "paused":
				if r.Intn(6) == 0 {
					ops = append(ops, sop{kind: "pause", t: t})
				} else if r.Intn(6) == 0 && next[t]%10 < 9 {
					ops = append(ops, sop{kind: "watch", t: t, c: next[t], fail: r.Intn(2) == 0})
					next[t]++
				} else {
					ops = append(ops, mkLoad(t, false))
				}
			default:
				x := r.Intn(10)
				switch {
				case x < 4 && next[t]%10 < 9:
					f := r.Intn(3) == 0
					ops = append(ops, sop{kind: "watch", t: t, c: next[t], fail: f})
					next[t]++
					if f {
						state[t] = "paused"
					}
				case x < 6 && next[t]%10 < 9:
					ops = append(ops, sop{kind: "watchpause", t: t, c: next[t]})
					next[t]++
					state[t] = "paused"
				case x < 8:
					ops = append(ops, sop{kind: "pause", t: t})
					state[t] = "paused"
				case x < 9:
					ops = append(ops, mkLoad(t, false)) // refused: the task runs
					state[t] = "running"
				default:
					o := mkLoad(t, true) // refused: the task exists
					o.init = nil
					ops = append(ops, o)
					state[t] = "running"
				}
			}
		}
		runCase(out, ops, "generated")
	}
	if err := out.Flush(); err != nil {
		fmt.Fprintln(os.Stderr, err)
		os.Exit(1)
	}
}
