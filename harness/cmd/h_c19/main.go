// h_c19: drives the real /cdc HTTP handler (server.NewVerifHandler around a MetaCDC over an in-memory
// store and an injected replicate entity) with structured requests of known class and with a malformed
// byte stream, and records after every request the response code and a snapshot of the task list, the
// checkpoints and the duplicate-detection bookkeeping.
package main

import (
	"bytes"
	"encoding/base64"
	"encoding/json"
	"fmt"
	"net/http"
	"net/http/httptest"
	"sort"
	"strings"

	"github.com/milvus-io/milvus-proto/go-api/v2/msgpb"
	"google.golang.org/protobuf/proto"

	"github.com/zilliztech/milvus-cdc/core/api"
	"github.com/zilliztech/milvus-cdc/core/config"
	"github.com/zilliztech/milvus-cdc/server"
	"github.com/zilliztech/milvus-cdc/server/model/meta"
	"github.com/zilliztech/milvus-cdc/server/msgpacker"

	"verifharness/lib/cq"
	"verifharness/lib/hx"
	"verifharness/lib/sfake"
)

var targets = []string{"127.0.0.1:19092", "127.0.0.1:19093"}

const maxName = 16
const rpcChan = "rpc-chan"
const maxTasks = 4

type chanT struct {
	name    string
	virtual bool
	cid     int64 // -1: ParseVChannel fails
}

var chans = []chanT{
	{"src-dml_0_100v0", true, 100}, {"src-dml_1_100v1", true, 100}, {"src-dml_2_200v0", true, 200},
	{"src-dml_0", false, -1}, {"src-dml_vx", true, -1},
}

type posT struct {
	ch chanT
	ok bool
}
type cinfoT struct {
	name string
	pos  []posT
}
type mapT struct {
	s, t string
	cm   [][2]string
}
type creqT struct {
	id                           string
	mURI, mHost, mUser, mPass    string
	mPort, mTimeout              int
	kAddr, kTopic                string
	period, size                 int
	cinfos                       []cinfoT
	dbc                          []struct{ db string; infos []cinfoT }
	rpcName                      string
	rpcPos                       int // 0 none, 1 ok, 2 bad
	role                         bool
	mapping                      []mapT
}

func goodPos(ch string) string {
	b, _ := proto.Marshal(&msgpb.MsgPosition{ChannelName: ch, MsgID: []byte{1, 2, 3}, Timestamp: 449999999999})
	return base64.StdEncoding.EncodeToString(b)
}

const badPos = "!!not-base64!!"

func cinfoJSON(c cinfoT) map[string]any {
	m := map[string]any{"name": c.name}
	if len(c.pos) > 0 {
		p := map[string]any{}
		for _, x := range c.pos {
			if x.ok {
				p[x.ch.name] = goodPos(x.ch.name)
			} else {
				p[x.ch.name] = badPos
			}
		}
		m["positions"] = p
	}
	return m
}

func (r creqT) data() map[string]any {
	d := map[string]any{"task_id": r.id}
	if r.mURI != "" || r.mHost != "" || r.mPort != 0 || r.mUser != "" || r.mPass != "" || r.mTimeout != 0 {
		d["milvus_connect_param"] = map[string]any{"uri": r.mURI, "host": r.mHost, "port": r.mPort, "username": r.mUser, "password": r.mPass, "connect_timeout": r.mTimeout}
	}
	if r.kAddr != "" || r.kTopic != "" {
		d["kafka_connect_param"] = map[string]any{"address": r.kAddr, "topic": r.kTopic}
	}
	if r.period != 0 || r.size != 0 {
		d["buffer_config"] = map[string]any{"period": r.period, "size": r.size}
	}
	if len(r.cinfos) > 0 {
		var l []any
		for _, c := range r.cinfos {
			l = append(l, cinfoJSON(c))
		}
		d["collection_infos"] = l
	}
	if len(r.dbc) > 0 {
		m := map[string]any{}
		for _, e := range r.dbc {
			l := []any{}
			for _, c := range e.infos {
				l = append(l, cinfoJSON(c))
			}
			m[e.db] = l
		}
		d["db_collections"] = m
	}
	rc := map[string]any{}
	if r.rpcName != "" {
		rc["name"] = r.rpcName
	}
	switch r.rpcPos {
	case 1:
		rc["position"] = goodPos(rpcChan)
	case 2:
		rc["position"] = badPos
	}
	if len(rc) > 0 {
		d["rpc_channel_info"] = rc
	}
	if r.role {
		d["extra_info"] = map[string]any{"enable_user_role": true}
	}
	if len(r.mapping) > 0 {
		var l []any
		for _, m := range r.mapping {
			cm := map[string]any{}
			for _, p := range m.cm {
				cm[p[0]] = p[1]
			}
			l = append(l, map[string]any{"source_db": m.s, "target_db": m.t, "collection_mapping": cm})
		}
		d["name_mapping"] = l
	}
	return d
}

func cinfoCoq(c cinfoT) string {
	return fmt.Sprintf("{| ci_name := %s; ci_pos := %s |}", cq.Str(c.name), cq.MapList(c.pos, func(p posT) string {
		cid := "None"
		if p.ch.cid >= 0 {
			cid = cq.Some(cq.Z(p.ch.cid))
		}
		return cq.Pair(fmt.Sprintf("{| ch_virtual := %s; ch_cid := %s |}", cq.Bool(p.ch.virtual), cid), cq.Bool(p.ok))
	}))
}

func (r creqT) coq() string {
	rp := "None"
	if r.rpcPos == 1 {
		rp = "(Some true)"
	} else if r.rpcPos == 2 {
		rp = "(Some false)"
	}
	var dbc []string
	for _, e := range r.dbc {
		dbc = append(dbc, cq.Pair(cq.Str(e.db), cq.MapList(e.infos, cinfoCoq)))
	}
	return fmt.Sprintf("{| r_id := %s; r_m_uri := %s; r_m_host := %s; r_m_port := %s; r_m_user := %s; r_m_pass := %s; r_m_timeout := %s; r_dial_ok := false; r_k_addr := %s; r_k_topic := %s; r_period := %s; r_size := %s; r_cinfos := %s; r_dbc := %s; r_rpc_name := %s; r_rpc_pos := %s; r_role := %s; r_mapping := %s |}",
		cq.Str(r.id), cq.Str(r.mURI), cq.Str(r.mHost), cq.Z(int64(r.mPort)), cq.Str(r.mUser), cq.Str(r.mPass), cq.Z(int64(r.mTimeout)),
		cq.Str(r.kAddr), cq.Str(r.kTopic), cq.Z(int64(r.period)), cq.Z(int64(r.size)),
		cq.MapList(r.cinfos, cinfoCoq), cq.List(dbc), cq.Str(r.rpcName), rp, cq.Bool(r.role),
		cq.MapList(r.mapping, func(m mapT) string {
			return "(" + cq.Str(m.s) + ", " + cq.Str(m.t) + ", " + cq.MapList(m.cm, func(p [2]string) string { return cq.Pair(cq.Str(p[0]), cq.Str(p[1])) }) + ")"
		}))
}

type oper struct {
	post   bool
	method string
	body   []byte
	coq    string // Coq term of the body class
	tag    string
}

type sys struct {
	w   *sfake.World
	cfg *server.CDCServerConfig
	cdc *server.MetaCDC
	h   http.Handler
}

func (s *sys) entities() {
	have := map[string]bool{}
	for _, e := range s.cdc.VerifSnapshot().Entities {
		have[e.Key] = true
	}
	for _, t := range targets {
		if !have[t] {
			s.cdc.VerifPutEntity(t, sfake.NewCM(s.w), nil, &sfake.MetaOp{DefaultMetaOp: &api.DefaultMetaOp{}}, &sfake.Writer{DefaultWriter: &api.DefaultWriter{}, W: s.w}, sfake.NewDisp(s.w))
		}
	}
}

func names(ss []string) string {
	sort.Strings(ss)
	return cq.MapList(ss, func(s string) string {
		p := strings.SplitN(s, ".", 2)
		return cq.Pair(cq.Str(p[0]), cq.Str(p[1]))
	})
}

func (s *sys) observe(code int) string {
	infos := s.w.TaskInfos()
	var ids []string
	for id := range infos {
		ids = append(ids, id)
	}
	sort.Strings(ids)
	var ts []string
	for _, id := range ids {
		ts = append(ts, cq.Pair(cq.Str(id), cq.Bool(infos[id].State == meta.TaskStateRunning)))
	}
	var ks []string
	for _, p := range s.w.Positions() {
		ks = append(ks, cq.Pair(cq.Str(p.TaskID), cq.Z(p.CollectionID)))
	}
	sort.Strings(ks)
	snap := s.cdc.VerifSnapshot()
	var books []string
	for _, t := range targets {
		books = append(books, fmt.Sprintf("{| B.ob_target := %s; B.ob_data := %s; B.ob_excl := %s; B.ob_extra := %s |}",
			cq.Str(t), names(append([]string{}, snap.Data[t]...)), names(append([]string{}, snap.Exclude[t]...)), cq.Bool(snap.Extra[t])))
	}
	return fmt.Sprintf("{| o_code := %s; o_tasks := %s; o_ckpts := %s; o_books := %s |}", cq.Ni(code), cq.List(ts), cq.List(ks), cq.List(books))
}

// send returns the code found in the response body, or -1 when the body is not the expected JSON, -2 on panic
func (s *sys) send(o oper) (code int) {
	s.entities()
	defer func() {
		if r := recover(); r != nil {
			code = -2
		}
	}()
	req := httptest.NewRequest(o.method, "/cdc", bytes.NewReader(o.body))
	rec := httptest.NewRecorder()
	s.h.ServeHTTP(rec, req)
	var resp struct {
		Code *int `json:"code"`
	}
	dec := json.NewDecoder(bytes.NewReader(rec.Body.Bytes()))
	if err := dec.Decode(&resp); err != nil || resp.Code == nil {
		return -1
	}
	if dec.More() {
		return -1
	}
	return *resp.Code
}

func wrap(typ string, data map[string]any) []byte {
	b, _ := json.Marshal(map[string]any{"request_type": typ, "request_data": data})
	return b
}

func main() {
	a := hx.Parse()
	config.InitCommonConfig(func(c *config.CommonConfig) {
		c.Retry = config.RetrySettings{RetryTimes: 1, InitBackOff: 1, MaxBackOff: 1}
	})
	out := cq.NewOut(a.Out, "From Verif Require Import C10.Model C19.Model.", "case", 120)
	r := a.Rng
	panics := 0
	runCase := func(ops []oper, tag string) {
		s := &sys{w: sfake.NewWorld(), cfg: &server.CDCServerConfig{MaxTaskNum: maxTasks, MaxNameLength: maxName,
			Retry:        config.RetrySettings{RetryTimes: 1, InitBackOff: 1, MaxBackOff: 1},
			SourceConfig: server.MilvusSourceConfig{ReplicateChan: rpcChan},
			Packer:       msgpacker.PackerConfig{MaxCount: 2, TimerInterval: 3600000}}}
		s.w.Epoch = 1
		s.cdc = server.NewVerifMetaCDC(s.cfg, &sfake.Factory{W: s.w, Epoch: 1}, nil)
		s.h = server.NewVerifHandler(s.cdc, s.cfg)
		var opT, obT []string
		ok200, rej := 0, 0
		for _, o := range ops {
			c := s.send(o)
			if c == -2 {
				panics++
				c = 999
			}
			if c < 0 {
				c = 998
			}
			if c == 200 {
				ok200++
			} else {
				rej++
			}
			out.Count(fmt.Sprintf("%s=%d", o.tag, c))
			opT = append(opT, cq.Pair(cq.Bool(o.post), o.coq))
			obT = append(obT, s.observe(c))
		}
		term := fmt.Sprintf("{| c_cfg := {| max_name := %d; rpc_chan := %s; max_tasks := %d |}; c_targets := %s; c_ops := %s; c_obs := %s |}",
			maxName, cq.Str(rpcChan), maxTasks, cq.Strs(targets), cq.List(opT), cq.List(obT))
		out.Add(term)
		if ok200 >= 2 && rej >= 2 {
			var d []string
			for _, o := range ops {
				d = append(d, string(o.body))
			}
			out.NonTrivial(strings.Join(d, "|"))
		}
		var bodies []string
		for _, o := range ops {
			b := string(o.body)
			if len(b) > 300 {
				b = b[:300] + "..."
			}
			bodies = append(bodies, o.method+" "+b)
		}
		out.Sample(map[string]interface{}{"tag": tag, "requests": bodies, "last_observation": obT[len(obT)-1]})
	}

	mkCreate := func(c creqT, tag string) oper {
		return oper{post: true, method: "POST", body: wrap("create", c.data()), coq: "(BReq (RCreate " + c.coq() + "))", tag: "create/" + tag}
	}
	simple := func(typ, ctor, id string) oper {
		return oper{post: true, method: "POST", body: wrap(typ, map[string]any{"task_id": id}), coq: fmt.Sprintf("(BReq (%s %s))", ctor, cq.Str(id)), tag: typ}
	}
	good := func(id, tg, db, coll string) creqT {
		c := creqT{id: id, kAddr: tg, kTopic: "t"}
		c.dbc = []struct {
			db    string
			infos []cinfoT
		}{{db, []cinfoT{{name: coll}}}}
		return c
	}
	// corpus
	{
		c1 := good("t01", targets[0], "db1", "c1")
		bad := good("t02", targets[0], "db1", "a.b")
		c3 := good("t03", targets[0], "db1", "c3")
		runCase([]oper{mkCreate(c1, "valid"), mkCreate(bad, "dot-name"), mkCreate(c3, "valid")}, "corpus: collection name with '.' (panicked in the duplicate check)")
		o := good("t01", targets[0], "db1", "c1")
		o.dbc[0].infos[0].pos = []posT{{chans[0], true}}
		o.rpcPos = 2
		runCase([]oper{mkCreate(o, "bad-rpc-pos")}, "corpus: undecodable rpc position left a checkpoint behind")
		m := good("t01", targets[0], "db1", "c1")
		m.mapping = []mapT{{"db1", "t.db", [][2]string{{"c1", "c1x"}}}}
		runCase([]oper{mkCreate(c1, "valid"), mkCreate(m, "dot-mapping")}, "corpus: mapping name with '.'")
		m2 := good("t02", targets[0], "db2", "*")
		m2.mapping = []mapT{{"a.b", "tdb", nil}}
		runCase([]oper{mkCreate(c1, "valid"), mkCreate(m2, "dot-mapping")}, "corpus: database-level mapping (no collection entries) with '.' in the source database")
	}
	for id := 0; id < a.N; id++ {
		nops := 3 + r.Intn(10)
		var ops []oper
		next := 1
		var live []string
		for k := 0; k < nops; k++ {
			x := r.Intn(100)
			switch {
			case x < 50:
				tid := fmt.Sprintf("t%02d", next)
				next++
				c := good(tid, targets[r.Intn(10)/8], []string{"default", "db1", "db2", "*"}[r.Intn(4)], []string{"c1", "c2", "c3", "*"}[r.Intn(4)])
				tag := "valid"
				if r.Intn(10) == 0 {
					c.cinfos = []cinfoT{{name: c.dbc[0].infos[0].name}}
					c.dbc = nil
				}
				spec := func() *cinfoT {
					if len(c.cinfos) > 0 {
						return &c.cinfos[0]
					}
					return &c.dbc[0].infos[0]
				}
				if r.Intn(4) == 0 && spec().name != "*" { // valid positions
					spec().pos = []posT{{chans[0], true}}
					if r.Intn(2) == 0 {
						spec().pos = append(spec().pos, posT{chans[1], true})
					}
				}
				if r.Intn(6) == 0 {
					c.rpcPos = 1
				}
				if r.Intn(8) == 0 {
					c.rpcName = rpcChan
				}
				c.role = r.Intn(8) == 0
				if r.Intn(2) == 0 { // one invalid field
					switch r.Intn(22) {
					case 0:
						spec().name, tag = "", "empty-name"
					case 1:
						spec().name, tag = "a.b", "dot-name"
					case 2:
						spec().name, tag = strings.Repeat("n", maxName+1+r.Intn(5)), "long-name"
					case 3:
						if len(c.dbc) > 0 {
							c.dbc[0].db, tag = "d.b", "dot-db"
						}
					case 4:
						if len(c.dbc) > 0 {
							c.dbc[0].db, tag = strings.Repeat("d", maxName+1), "long-db"
						}
					case 5:
						spec().name = "*"
						spec().pos, tag = []posT{{chans[0], true}}, "star-with-positions"
					case 6:
						if spec().name != "*" {
							spec().pos, tag = []posT{{chans[3], true}}, "non-virtual-position-channel"
						}
					case 7:
						if spec().name != "*" {
							spec().pos, tag = []posT{{chans[4], true}}, "unparsable-position-channel"
						}
					case 8:
						if spec().name != "*" {
							spec().pos, tag = []posT{{chans[0], false}}, "undecodable-position"
						}
					case 9:
						if spec().name != "*" {
							spec().pos, tag = []posT{{chans[0], true}, {chans[2], true}}, "positions-of-two-collections"
						}
					case 10:
						c.rpcPos, tag = 2, "undecodable-rpc-position"
					case 11:
						c.rpcName, tag = "other-chan", "foreign-rpc-channel"
					case 12:
						c.period, tag = -1-r.Intn(5), "negative-period"
					case 13:
						c.size, tag = -1-r.Intn(5), "negative-size"
					case 14:
						c.mHost, c.mPort, tag = "localhost", 19530, "two-targets"
					case 15:
						c.kAddr, c.kTopic, tag = "", "", "no-target"
					case 16:
						c.kTopic, tag = "", "no-topic"
					case 17:
						c.kAddr, c.kTopic = "", ""
						c.mHost, tag = "localhost", "host-without-port"
					case 18:
						c.kAddr, c.kTopic = "", ""
						c.mHost, c.mPort, c.mUser, tag = "localhost", 19530, "root", "user-without-password"
					case 19:
						c.kAddr, c.kTopic = "", ""
						c.mHost, c.mPort, c.mTimeout, tag = "localhost", 19530, -3, "negative-timeout"
					case 20:
						if len(c.dbc) > 0 {
							c.dbc[0].infos = append(c.dbc[0].infos, cinfoT{name: "c9"})
							tag = "two-collection-infos"
						}
					case 21:
						// a '.' in any of the four name positions of a mapping, with and without collection entries
						sdb := "db1"
						if len(c.dbc) > 0 && c.dbc[0].db != "*" {
							sdb = c.dbc[0].db
						}
						m := mapT{sdb, "tdb", [][2]string{{"c1", "c1x"}}}
						switch r.Intn(6) {
						case 0:
							m.s, m.cm = "a.b", nil
						case 1:
							m.t, m.cm = "t.db", nil
						case 2:
							m.s = "a.b"
						case 3:
							m.t = "t.db"
						case 4:
							m.cm = [][2]string{{"c.1", "c1x"}}
						default:
							m.cm = [][2]string{{"c1", "c.1x"}}
						}
						c.mapping, tag = []mapT{m}, "dot-mapping"
					}
				}
				if len(live) > 0 && r.Intn(20) == 0 {
					c = good(live[r.Intn(len(live))], targets[0], "db9", "zz")
					next--
					tag = "existing-id"
				}
				ops = append(ops, mkCreate(c, tag))
				if tag == "valid" {
					live = append(live, tid)
				}
			case x < 60:
				ops = append(ops, simple("delete", "RDelete", pick(r.Intn, live)))
			case x < 68:
				ops = append(ops, simple("pause", "RPause", pick(r.Intn, live)))
			case x < 76:
				ops = append(ops, simple("resume", "RResume", pick(r.Intn, live)))
			case x < 80:
				idv := pick(r.Intn, live)
				if r.Intn(4) == 0 {
					idv = ""
				}
				ops = append(ops, simple("get", "RGet", idv))
			case x < 83:
				ops = append(ops, oper{post: true, method: "POST", body: wrap("list", map[string]any{}), coq: "(BReq RList)", tag: "list"})
			case x < 85:
				ops = append(ops, simple("position", "RGetPosition", pick(r.Intn, live)))
			case x < 87:
				ops = append(ops, oper{post: true, method: "POST", body: wrap("maintenance", map[string]any{"operation": "noop"}), coq: "(BReq RMaintenance)", tag: "maintenance"})
			case x < 89:
				m := []string{"GET", "PUT", "DELETE", "PATCH"}[r.Intn(4)]
				ops = append(ops, oper{post: false, method: m, body: wrap("list", map[string]any{}), coq: "(BReq RList)", tag: "non-post"})
			case x < 92:
				ops = append(ops, oper{post: true, method: "POST", body: wrap([]string{"", "CREATE", "drop", "create "}[r.Intn(4)], map[string]any{"task_id": "t01"}), coq: "BUnknownType", tag: "unknown-type"})
			case x < 96: // undecodable bytes
				var b []byte
				switch r.Intn(4) {
				case 0:
					b = make([]byte, r.Intn(40))
					r.Read(b)
					if json.Valid(b) {
						b = []byte("{")
					}
				case 1:
					full := wrap("create", good("tz", targets[0], "db1", "c1").data())
					b = full[:1+r.Intn(len(full)-1)]
				case 2:
					b = []byte(strings.Repeat("[", 5000))
				default:
					b = []byte(`{"request_type": 5, "request_data": {}}`)
				}
				ops = append(ops, oper{post: true, method: "POST", body: b, coq: "BUndecodable", tag: "undecodable"})
			default: // wrongly typed data
				var b []byte
				switch r.Intn(4) {
				case 0:
					b = wrap("create", map[string]any{"task_id": 5})
				case 1:
					b = wrap("create", map[string]any{"collection_infos": "c1", "kafka_connect_param": map[string]any{"address": targets[0], "topic": "t"}})
				case 2:
					b = wrap("delete", map[string]any{"task_id": []any{"t01"}})
				default:
					b = wrap("create", map[string]any{"buffer_config": map[string]any{"period": "soon"}, "kafka_connect_param": map[string]any{"address": targets[0], "topic": "t"}})
				}
				ops = append(ops, oper{post: true, method: "POST", body: b, coq: "BBadData", tag: "bad-data"})
			}
		}
		runCase(ops, "random")
	}
	out.Extra["handler_panics"] = panics
	out.Extra["corpus_cases"] = 4
	if err := out.Flush(); err != nil {
		panic(err)
	}
}

func pick(intn func(int) int, live []string) string {
	if len(live) == 0 || intn(6) == 0 {
		return "nobody"
	}
	return live[intn(len(live))]
}
