// h_c17: drives the real meta.ReplicateMeteImpl over an in-memory api.ReplicateStore that stores
// JSON text exactly as the etcd/MySQL stores do.
package main

import (
	"context"
	"encoding/json"
	"flag"
	"fmt"
	"sort"
	"strings"
	"sync"
	"time"

	"github.com/zilliztech/milvus-cdc/core/api"
	"github.com/zilliztech/milvus-cdc/core/meta"

	"verifharness/lib/cq"
	"verifharness/lib/efake"
	"verifharness/lib/hx"
)

// -store etcd: the histories run over the real meta.EtcdReplicateStore on an embedded etcd (one root path per case); object
// ids are then chosen so that message ids are string prefixes of one another (collection 1 / 10 / 12, partition 5-1 / 5-12)
var storeKind = flag.String("store", "mem", "mem|etcd")
var etcd *efake.Etcd

type memStore struct {
	mu      sync.Mutex
	data    map[string]string
	gate    chan struct{} // when non-nil the next Put signals `entered` and waits for the gate
	entered chan struct{}
}

func (s *memStore) Get(ctx context.Context, key string, withPrefix bool) ([]api.MetaMsg, error) {
	s.mu.Lock()
	defer s.mu.Unlock()
	keys := make([]string, 0, len(s.data))
	for k := range s.data {
		if (withPrefix && strings.HasPrefix(k, key)) || (!withPrefix && k == key) {
			keys = append(keys, k)
		}
	}
	sort.Strings(keys)
	var out []api.MetaMsg
	for _, k := range keys {
		var m api.MetaMsg
		if err := json.Unmarshal([]byte(s.data[k]), &m); err != nil {
			return nil, err
		}
		out = append(out, m)
	}
	return out, nil
}

func (s *memStore) Put(ctx context.Context, key string, value api.MetaMsg) error {
	s.mu.Lock()
	g, e := s.gate, s.entered
	s.gate, s.entered = nil, nil
	s.mu.Unlock()
	if g != nil {
		close(e)
		<-g
	}
	bs, err := json.Marshal(value)
	if err != nil {
		return err
	}
	s.mu.Lock()
	s.data[key] = string(bs)
	s.mu.Unlock()
	return nil
}

func (s *memStore) Remove(ctx context.Context, key string) error {
	s.mu.Lock()
	delete(s.data, key)
	s.mu.Unlock()
	return nil
}

type rec struct {
	target, ready  []string
	db, coll, part string
	ts             uint64
}

type op struct {
	kind     int // 0 upd, 1 remove, 2 reload
	part     bool
	task, id string
	r        rec
	pairNext bool // run concurrently with the following op (its store Put is stalled)
}

func recTerm(r rec) string {
	return fmt.Sprintf("{| r_target := %s; r_ready := %s; r_db := %s; r_coll := %s; r_part := %s; r_ts := %s |}",
		cq.Strs(r.target), cq.Strs(r.ready), cq.Str(r.db), cq.Str(r.coll), cq.Str(r.part), cq.N(r.ts))
}

func canon(chans, l []string) []string {
	var out []string
	for _, c := range chans {
		for _, x := range l {
			if x == c {
				out = append(out, c)
			}
		}
	}
	return out
}

func orecTerm(chans []string, b api.BaseTaskMsg, db, coll, part string, ts uint64) string {
	return fmt.Sprintf("{| o_target := %s; o_ready := %s; o_db := %s; o_coll := %s; o_part := %s; o_ts := %s |}",
		cq.Strs(canon(chans, b.TargetChannels)), cq.Strs(canon(chans, b.ReadyChannels)), cq.Str(db), cq.Str(coll), cq.Str(part), cq.N(ts))
}

type key struct{ task, id string }

var caseSeq int

func observe(chans []string, keys []key, impl *meta.ReplicateMeteImpl, st api.ReplicateStore, ret string) string {
	ctx := context.Background()
	memc := make([]string, len(keys))
	memp := make([]string, len(keys))
	sto := make([]string, len(keys))
	for i, k := range keys {
		memc[i], memp[i], sto[i] = "None", "None", "None"
		if ms, err := impl.GetTaskDropCollectionMsg(ctx, k.task, k.id); err == nil && len(ms) == 1 {
			m := ms[0]
			memc[i] = cq.Some(orecTerm(chans, m.Base, m.DatabaseName, m.CollectionName, "", m.DropTS))
		}
		if ms, err := impl.GetTaskDropPartitionMsg(ctx, k.task, k.id); err == nil && len(ms) == 1 {
			m := ms[0]
			memp[i] = cq.Some(orecTerm(chans, m.Base, m.DatabaseName, m.CollectionName, m.PartitionName, m.DropTS))
		}
		if ms, err := st.Get(ctx, meta.GetMetaKey(k.task, k.id), false); err == nil && len(ms) == 1 {
			switch ms[0].Type {
			case api.DropCollectionMetaMsgType:
				if m, err := api.GetTaskDropCollectionMsg(ms[0]); err == nil {
					sto[i] = cq.Some(cq.Pair("false", orecTerm(chans, m.Base, m.DatabaseName, m.CollectionName, "", m.DropTS)))
				}
			case api.DropPartitionMetaMsgType:
				if m, err := api.GetTaskDropPartitionMsg(ms[0]); err == nil {
					sto[i] = cq.Some(cq.Pair("true", orecTerm(chans, m.Base, m.DatabaseName, m.CollectionName, m.PartitionName, m.DropTS)))
				}
			}
		}
	}
	return fmt.Sprintf("{| ob_ret := %s; ob_memc := %s; ob_memp := %s; ob_store := %s |}", ret, cq.List(memc), cq.List(memp), cq.List(sto))
}

func doOp(impl *meta.ReplicateMeteImpl, p op) string {
	ctx := context.Background()
	switch p.kind {
	case 0:
		base := api.BaseTaskMsg{TaskID: p.task, MsgID: p.id,
			TargetChannels: append([]string{}, p.r.target...), ReadyChannels: append([]string{}, p.r.ready...)}
		var ok bool
		var err error
		if p.part {
			ok, err = impl.UpdateTaskDropPartitionMsg(ctx, api.TaskDropPartitionMsg{Base: base, DatabaseName: p.r.db, CollectionName: p.r.coll, PartitionName: p.r.part, DropTS: p.r.ts})
		} else {
			ok, err = impl.UpdateTaskDropCollectionMsg(ctx, api.TaskDropCollectionMsg{Base: base, DatabaseName: p.r.db, CollectionName: p.r.coll, DropTS: p.r.ts})
		}
		if err != nil {
			return "None"
		}
		return cq.Some(cq.Bool(ok))
	case 1:
		_ = impl.RemoveTaskMsg(ctx, p.task, p.id)
	}
	return "None"
}

func runCase(o *cq.Out, chans []string, keys []key, ops []op) {
	ms := &memStore{data: map[string]string{}}
	var st api.ReplicateStore = ms
	if *storeKind == "etcd" {
		caseSeq++
		es, err := meta.NewEtcdReplicateStore([]string{etcd.Endpoint}, fmt.Sprintf("cdc/case%d", caseSeq))
		if err != nil {
			panic(err)
		}
		st = es
	}
	impl, err := meta.NewReplicateMetaImpl(st)
	if err != nil {
		panic(err)
	}
	var opTerms, obsTerms []string
	pairs := 0
	for i := 0; i < len(ops); i++ {
		p := ops[i]
		switch p.kind {
		case 0:
			k := "KColl"
			if p.part {
				k = "KPart"
			}
			opTerms = append(opTerms, cq.App("Upd", k, cq.Str(p.task), cq.Str(p.id), recTerm(p.r)))
		case 1:
			opTerms = append(opTerms, cq.App("Remove", cq.Str(p.task), cq.Str(p.id)))
		case 2:
			opTerms = append(opTerms, "Reload")
		}
		if p.kind == 2 {
			impl, err = meta.NewReplicateMetaImpl(st)
			if err != nil {
				panic(err)
			}
			obsTerms = append(obsTerms, cq.Some(observe(chans, keys, impl, st, "None")))
			continue
		}
		if p.pairNext && *storeKind == "mem" && i+1 < len(ops) && ops[i+1].kind == 0 {
			// A (this op) runs with its Put stalled; B (next) is started meanwhile. With the lock held
			// across the Put, B cannot finish before A is released; the model says A then B.
			q := ops[i+1]
			ms.mu.Lock()
			ms.gate, ms.entered = make(chan struct{}), make(chan struct{})
			g, e := ms.gate, ms.entered
			ms.mu.Unlock()
			var wg sync.WaitGroup
			var retB string
			wg.Add(2)
			go func() { defer wg.Done(); doOp(impl, p) }()
			<-e
			doneB := make(chan struct{})
			go func() { defer wg.Done(); retB = doOp(impl, q); close(doneB) }()
			select {
			case <-doneB:
			case <-time.After(25 * time.Millisecond):
			}
			close(g)
			wg.Wait()
			k := "KColl"
			if q.part {
				k = "KPart"
			}
			opTerms = append(opTerms, cq.App("Upd", k, cq.Str(q.task), cq.Str(q.id), recTerm(q.r)))
			obsTerms = append(obsTerms, "None", cq.Some(observe(chans, keys, impl, st, retB)))
			pairs++
			i++
			continue
		}
		ret := doOp(impl, p)
		obsTerms = append(obsTerms, cq.Some(observe(chans, keys, impl, st, ret)))
	}
	keyTerms := make([]string, len(keys))
	for i, k := range keys {
		keyTerms[i] = cq.Pair(cq.Str(k.task), cq.Str(k.id))
	}
	o.Add(fmt.Sprintf("{| c_chans := %s; c_keys := %s; c_ops := %s; c_obs := %s |}", cq.Strs(chans), cq.List(keyTerms), cq.List(opTerms), cq.List(obsTerms)))
	o.Count(fmt.Sprintf("ops=%d", len(ops)/5*5))
	if pairs > 0 {
		o.Count("with-concurrent-pair")
	}
	nUpd, nRem, nRel := 0, 0, 0
	for _, p := range ops {
		switch p.kind {
		case 0:
			nUpd++
		case 1:
			nRem++
		case 2:
			nRel++
		}
	}
	o.CountN("op:update", nUpd)
	o.CountN("op:remove", nRem)
	o.CountN("op:reload", nRel)
	if nUpd >= 3 {
		o.NonTrivial(strings.Join(opTerms, ";"))
	}
	o.Sample(map[string]interface{}{"channels": chans, "ops": opTerms, "last_observation": obsTerms[len(obsTerms)-1]})
}

func main() {
	a := hx.Parse()
	o := cq.NewOut(a.Out, "From Verif Require Import C17.Model.", "case", 150)
	r := a.Rng
	if *storeKind == "etcd" {
		etcd = efake.Start()
		defer etcd.Stop()
	}
	corpus(o)
	for n := 0; n < a.N; n++ {
		nch := 2 + r.Intn(4)
		chans := make([]string, nch)
		for i := range chans {
			chans[i] = fmt.Sprintf("by-dev-dml_%d_44v%d", i, i)
		}
		tasks := []string{"t1", "t2"}[:1+r.Intn(2)]
		type msg struct {
			part   bool
			id     string
			target []string
			r      rec
		}
		var msgs []msg
		for i := 0; i < 1+r.Intn(3); i++ {
			part := r.Intn(2) == 0
			cid, pid := int64(100+i), int64(7+i)
			if *storeKind == "etcd" {
				// ids whose message ids are string prefixes of one another
				cid, pid = []int64{1, 10, 12}[i], []int64{1, 12, 120}[i]
				if part {
					cid = 5
				}
			}
			id := api.GetDropCollectionMsgID(cid)
			if part {
				id = api.GetDropPartitionMsgID(cid, pid)
			}
			perm := r.Perm(nch)
			tg := make([]string, 1+r.Intn(nch))
			for j := range tg {
				tg[j] = chans[perm[j]]
			}
			ts := uint64(449999999999999999) + uint64(r.Int63n(1<<40))
			if r.Intn(4) == 0 {
				ts = uint64(r.Intn(1000))
			}
			rc := rec{target: tg, db: fmt.Sprintf("db%d", r.Intn(2)), coll: fmt.Sprintf("coll%d", i), ts: ts}
			if part {
				rc.part = fmt.Sprintf("p%d", i)
			}
			msgs = append(msgs, msg{part, id, tg, rc})
		}
		var keys []key
		for _, t := range tasks {
			for _, m := range msgs {
				keys = append(keys, key{t, m.id})
			}
		}
		nops := 1 + r.Intn(16)
		var ops []op
		for i := 0; i < nops; i++ {
			t := tasks[r.Intn(len(tasks))]
			m := msgs[r.Intn(len(msgs))]
			switch x := r.Intn(12); {
			case x == 0:
				ops = append(ops, op{kind: 1, task: t, id: m.id})
			case x == 1:
				ops = append(ops, op{kind: 2})
			default:
				rc := m.r
				// usually one shard of the target set reports; sometimes a foreign channel, sometimes two
				switch r.Intn(10) {
				case 0:
					rc.ready = []string{chans[r.Intn(nch)]}
				case 1:
					p := r.Perm(len(m.target))
					rc.ready = []string{m.target[p[0]]}
					if len(p) > 1 {
						rc.ready = append(rc.ready, m.target[p[1]])
					}
				default:
					rc.ready = []string{m.target[r.Intn(len(m.target))]}
				}
				ops = append(ops, op{kind: 0, part: m.part, task: t, id: m.id, r: rc, pairNext: r.Intn(25) == 0})
			}
		}
		runCase(o, chans, keys, ops)
	}
	if err := o.Flush(); err != nil {
		panic(err)
	}
}

// corpus: the minimal witnesses of the three defects found on the pinned tree (known_findings.json,
// "fixed" entries); they run first on every run so that a regression is reported again.
func corpus(o *cq.Out) {
	ch := []string{"v0", "v1", "v2"}
	big := uint64(449999999999999999)
	cr := func(ready string) rec { return rec{target: ch, ready: []string{ready}, db: "db", coll: "c", ts: big} }
	pr := func(ready string) rec {
		return rec{target: ch[:2], ready: []string{ready}, db: "db", coll: "c", part: "p", ts: 7}
	}
	cid, pid := api.GetDropCollectionMsgID(1), api.GetDropPartitionMsgID(1, 2)
	keys := []key{{"t", cid}, {"t", pid}}
	// (1) three shards report one after the other: the merge must be kept in memory, third report is ready
	runCase(o, ch, keys, []op{{kind: 0, task: "t", id: cid, r: cr("v0")}, {kind: 0, task: "t", id: cid, r: cr("v2")}, {kind: 0, task: "t", id: cid, r: cr("v1")}})
	// (2) a partition drop message is removed from memory too
	runCase(o, ch, keys, []op{{kind: 0, part: true, task: "t", id: pid, r: pr("v0")}, {kind: 1, task: "t", id: pid}, {kind: 0, part: true, task: "t", id: pid, r: pr("v1")}})
	// (3) DropTS above 2^53 survives the store's JSON on reload
	runCase(o, ch, keys, []op{{kind: 0, task: "t", id: cid, r: cr("v0")}, {kind: 2}})
}
