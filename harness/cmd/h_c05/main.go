// h_c05: the server's data path (seam L3a): the harness is the channel manager.  It creates tasks through the
// real MetaCDC, hands labelled packs to the per-channel consumers in feeder order (after a restart / resume: from
// the persisted checkpoint), injects downstream write failures, checkpoint-store failures, drop / error events,
// pauses, resumes and crashes, and records after every label: every acknowledged write in order, the stored
// checkpoints, the task states and which background loops are still alive.  Used by C05 and C06 (-mode).
package main

import (
	"flag"
	"fmt"
	"regexp"
	"sort"
	"strings"
	"time"

	"github.com/milvus-io/milvus-proto/go-api/v2/commonpb"
	"github.com/milvus-io/milvus-proto/go-api/v2/msgpb"
	"github.com/milvus-io/milvus-proto/go-api/v2/schemapb"
	"github.com/milvus-io/milvus/pkg/mq/msgstream"
	"github.com/milvus-io/milvus/pkg/util/tsoutil"

	"github.com/zilliztech/milvus-cdc/core/api"
	"github.com/zilliztech/milvus-cdc/core/config"
	"github.com/zilliztech/milvus-cdc/core/pb"
	"github.com/zilliztech/milvus-cdc/server"
	"github.com/zilliztech/milvus-cdc/server/model"
	"github.com/zilliztech/milvus-cdc/server/model/meta"
	"github.com/zilliztech/milvus-cdc/server/model/request"
	"github.com/zilliztech/milvus-cdc/server/msgpacker"

	"verifharness/lib/cq"
	"verifharness/lib/hx"
	"verifharness/lib/sfake"
)

var mode = flag.String("mode", "c05", "c05|c06")

var seekRe = regexp.MustCompile(`([A-Za-z0-9_-]+)=([0-9a-f]*)@(\d+)`)

const target = "127.0.0.1:19092"

type stream struct {
	task string
	coll int64
	name string
	pch  string
	ch   string
	n    int
}

type label struct {
	kind  string // feed drop error pause resume crash
	k     int
	wfail int // 0 none
	big   bool // the pack is larger than the packer's MaxMsgSize
	pfail bool
	fail  bool
	task  string
}

type sig struct{ point, key string }

var sigs = make(chan sig, 4096)

type sys struct {
	w       *sfake.World
	cfg     *server.CDCServerConfig
	cdc     *server.MetaCDC
	cm      *sfake.CM
	streams []stream
	prefix  string
	alive   map[string]bool
	evloop  bool
	next    map[int]int
	chans   []string
}

func (s *sys) tid(t string) string { return s.prefix + t }

var pending []sig

func drain() {
	pending = nil
	for {
		select {
		case <-sigs:
		default:
			return
		}
	}
}

// wait for one of the wanted signals; other signals are kept for later waits
func wait(want func(sig) bool, d time.Duration) (sig, bool) {
	for i, x := range pending {
		if want(x) {
			pending = append(pending[:i], pending[i+1:]...)
			return x, true
		}
	}
	to := time.After(d)
	for {
		select {
		case x := <-sigs:
			if want(x) {
				return x, true
			}
			pending = append(pending, x)
		case <-to:
			timeouts++
			return sig{}, false
		}
	}
}

var timeouts int

func (s *sys) hasEntity() bool {
	for _, e := range s.cdc.VerifSnapshot().Entities {
		if e.Key == target {
			return true
		}
	}
	return false
}

func (s *sys) inject() {
	s.cm = sfake.NewCM(s.w)
	cat := &sfake.MetaOp{DefaultMetaOp: &api.DefaultMetaOp{}}
	seen := map[int64]bool{}
	for _, st := range s.streams {
		if !seen[st.coll] {
			seen[st.coll] = true
			cat.Colls = append(cat.Colls, sfake.Coll{ID: st.coll, DB: "db1", DBID: 2, Name: st.name, PChs: []string{st.pch}, VChs: []string{fmt.Sprintf("%s_%dv0", st.pch, st.coll)}, CTime: 50})
		}
	}
	s.cdc.VerifPutEntity(target, s.cm, nil, cat, &sfake.Writer{DefaultWriter: &api.DefaultWriter{}, W: s.w}, sfake.NewDisp(s.w))
	s.alive = map[string]bool{}
	for _, ch := range s.chans {
		s.cm.ChanCh <- ch
		s.alive[ch] = true
	}
	s.evloop = true
}

// after anything that may have released the entity: collect the exits of its loops
func (s *sys) settle() {
	if s.hasEntity() {
		return
	}
	for ch, a := range s.alive {
		if a {
			c := ch
			wait(func(x sig) bool { return x.point == "dml-exit" && x.key == c }, 5*time.Second)
			s.alive[ch] = false
		}
	}
	if s.evloop {
		wait(func(x sig) bool { return x.point == "event-exit" }, 5*time.Second)
		s.evloop = false
	}
}

func (s *sys) cursor(k int) int {
	st := s.streams[k]
	for _, p := range s.w.Positions() {
		if p.TaskID == s.tid(st.task) && p.CollectionID == st.coll {
			if pi, ok := p.Positions[st.pch]; ok && pi != nil && len(pi.DataPair.GetData()) == 2 {
				return int(pi.DataPair.Data[1])
			}
		}
	}
	return 0
}

func pack(s *sys, k, i int, big bool) *api.ReplicateMsg {
	st := s.streams[k]
	ts := tsoutil.ComposeTS(int64(1000*(k+1)+i), 0)
	id := []byte{byte(k), byte(i + 1)}
	var m msgstream.TsMsg
	if i%2 == 0 && !big {
		m = &msgstream.TimeTickMsg{BaseMsg: msgstream.BaseMsg{BeginTimestamp: ts, EndTimestamp: ts, HashValues: []uint32{0}},
			TimeTickMsg: &msgpb.TimeTickMsg{Base: &commonpb.MsgBase{MsgType: commonpb.MsgType_TimeTick, Timestamp: ts}}}
	} else {
		m = &msgstream.DeleteMsg{BaseMsg: msgstream.BaseMsg{BeginTimestamp: ts, EndTimestamp: ts, HashValues: []uint32{0}},
			DeleteRequest: &msgpb.DeleteRequest{Base: &commonpb.MsgBase{MsgType: commonpb.MsgType_Delete, Timestamp: ts}, CollectionName: st.name, CollectionID: st.coll}}
	}
	if big {
		// 2 KB of primary keys: above MaxMsgSize (1 KB in this harness)
		m.(*msgstream.DeleteMsg).PrimaryKeys = &schemapb.IDs{IdField: &schemapb.IDs_IntId{IntId: &schemapb.LongArray{Data: make([]int64, 2048)}}}
		for j := range m.(*msgstream.DeleteMsg).PrimaryKeys.GetIntId().Data {
			m.(*msgstream.DeleteMsg).PrimaryKeys.GetIntId().Data[j] = int64(1) << 40
		}
	}
	return &api.ReplicateMsg{CollectionName: st.name, CollectionID: st.coll, PChannelName: st.pch, TaskID: s.tid(st.task),
		MsgPack: &msgstream.MsgPack{BeginTs: ts, EndTs: ts, Msgs: []msgstream.TsMsg{m},
			StartPositions: []*msgpb.MsgPosition{{ChannelName: st.ch, MsgID: id, Timestamp: ts}},
			EndPositions:   []*msgpb.MsgPosition{{ChannelName: st.ch, MsgID: id, Timestamp: ts}}}}
}

func (s *sys) apply(l label) {
	drain()
	switch l.kind {
	case "feed":
		st := s.streams[l.k]
		i := s.next[l.k]
		if !s.alive[st.ch] || i >= st.n {
			return
		}
		s.next[l.k] = i + 1
		if l.wfail > 0 {
			s.w.FailNext("write", l.wfail)
		}
		if l.pfail {
			s.w.FailNext("pos.put", 1)
		}
		s.cm.Chan(st.ch) <- pack(s, l.k, i, l.big)
		x, ok := wait(func(x sig) bool { return (x.point == "dml" || x.point == "dml-exit") && x.key == st.ch }, 10*time.Second)
		if ok && x.point == "dml-exit" {
			s.alive[st.ch] = false
		}
		s.w.ClearFaults()
	case "drop":
		st := s.streams[l.k]
		if !s.evloop {
			return
		}
		if l.fail {
			s.w.FailNext("event", 1)
		}
		s.cm.EvCh <- &api.ReplicateAPIEvent{EventType: api.ReplicateDropCollection, TaskID: s.tid(st.task),
			CollectionInfo: &pb.CollectionInfo{ID: st.coll, Schema: &schemapb.CollectionSchema{Name: st.name}},
			ReplicateParam: api.ReplicateParam{Database: "db1"}}
		x, ok := wait(func(x sig) bool { return x.point == "event" || x.point == "event-exit" }, 10*time.Second)
		if ok && x.point == "event-exit" {
			s.evloop = false
		}
		s.w.ClearFaults()
	case "error":
		if !s.evloop {
			return
		}
		t := ""
		if l.task != "" {
			t = s.tid(l.task)
		}
		s.cm.EvCh <- &api.ReplicateAPIEvent{EventType: api.ReplicateError, TaskID: t, Error: fmt.Errorf("reader error")}
		if _, ok := wait(func(x sig) bool { return x.point == "event-exit" }, 10*time.Second); ok {
			s.evloop = false
		}
	case "pause":
		_, _ = s.cdc.Pause(&request.PauseRequest{TaskID: s.tid(l.task)})
	case "resume":
		infos := s.w.TaskInfos()
		ti := infos[s.tid(l.task)]
		if ti == nil || ti.State == meta.TaskStateRunning {
			return
		}
		if !s.hasEntity() {
			s.inject()
		}
		_, _ = s.cdc.Resume(&request.ResumeRequest{TaskID: s.tid(l.task)})
		for k, st := range s.streams {
			if st.task == l.task {
				s.next[k] = s.cursor(k)
			}
		}
	case "crash":
		s.w.Mu.Lock()
		s.w.Epoch++
		ep := s.w.Epoch
		s.w.Mu.Unlock()
		s.cdc = server.NewVerifMetaCDC(s.cfg, &sfake.Factory{W: s.w, Epoch: ep}, nil)
		s.inject()
		s.cdc.ReloadTask()
		for k := range s.streams {
			s.next[k] = s.cursor(k)
		}
	}
	s.settle()
}

func (s *sys) observe() string {
	var acks []string
	for _, e := range s.w.LogFrom(0) {
		if e.Kind == "ack" {
			// val = "<hex id>@ts"
			hexid := strings.SplitN(e.Val, "@", 2)[0]
			var k, i int
			fmt.Sscanf(hexid, "%02x%02x", &k, &i)
			acks = append(acks, fmt.Sprintf("(%s, %d%%nat, %d%%nat)", cq.Str(e.Key), k, i-1))
		}
	}
	var sto []string
	for k := range s.streams {
		st := s.streams[k]
		for _, p := range s.w.Positions() {
			if p.TaskID == s.tid(st.task) && p.CollectionID == st.coll {
				if pi, ok := p.Positions[st.pch]; ok && pi != nil {
					id := 0
					if len(pi.DataPair.GetData()) == 2 {
						id = int(pi.DataPair.Data[1])
					}
					sto = append(sto, fmt.Sprintf("(%d%%nat, (%d%%N, %s, %s))", k, id, cq.Z(pi.Time), cq.Bool(pi.Dropped)))
				}
			}
		}
	}
	infos := s.w.TaskInfos()
	var run []string
	seen := map[string]bool{}
	for _, st := range s.streams {
		if seen[st.task] {
			continue
		}
		seen[st.task] = true
		if ti, ok := infos[s.tid(st.task)]; ok {
			run = append(run, cq.Pair(cq.Str(st.task), cq.Bool(ti.State == meta.TaskStateRunning)))
		}
	}
	var al []string
	chs := append([]string{}, s.chans...)
	sort.Strings(chs)
	for _, ch := range chs {
		al = append(al, cq.Pair(cq.Str(ch), cq.Bool(s.alive[ch])))
	}
	var wf, pf, sk []string
	for _, e := range s.w.LogFrom(0) {
		switch {
		case e.Kind == "write.fail":
			var k, i int
			fmt.Sscanf(e.Val, "%02x%02x", &k, &i)
			wf = append(wf, fmt.Sprintf("(%d%%nat, %d%%nat)", k, i-1))
		case e.Kind == "pos.put" && !e.OK:
			// armed only in single-stream cases: the key names the (task, collection) of stream 0
			pf = append(pf, "0%nat")
		case e.Kind == "start":
			for _, m := range seekRe.FindAllStringSubmatch(e.Val, -1) {
				for k, st := range s.streams {
					if fmt.Sprint(st.coll) == e.Key && st.pch == m[1] && len(m[2]) == 4 {
						var kk, id int
						fmt.Sscanf(m[2], "%02x%02x", &kk, &id)
						if kk == k {
							sk = append(sk, fmt.Sprintf("(%d%%nat, (%d%%N, %s%%Z))", k, id, m[3]))
						}
					}
				}
			}
		}
	}
	return fmt.Sprintf("{| o_acks := %s; o_store := %s; o_running := %s; o_alive := %s; o_evloop := %s; o_wfails := %s; o_pfails := %s; o_seeks := %s |}",
		cq.List(acks), cq.List(sto), cq.List(run), cq.List(al), cq.Bool(s.evloop), cq.List(wf), cq.List(pf), cq.List(sk))
}

func labelCoq(l label) string {
	switch l.kind {
	case "feed":
		w := "None"
		if l.wfail > 0 {
			w = fmt.Sprintf("(Some %d%%nat)", l.wfail)
		}
		return fmt.Sprintf("(Feed %d%%nat %s %s %s)", l.k, cq.Bool(l.big), w, cq.Bool(l.pfail))
	case "drop":
		return fmt.Sprintf("(EvDrop %d%%nat %s)", l.k, cq.Bool(l.fail))
	case "error":
		return fmt.Sprintf("(EvError %s)", cq.Str(l.task))
	case "pause":
		return fmt.Sprintf("(ApiPause %s)", cq.Str(l.task))
	case "resume":
		return fmt.Sprintf("(ApiResume %s)", cq.Str(l.task))
	}
	return "Crash"
}

var caseNo int

func runCase(out *cq.Out, maxcount int, streams []stream, labels []label, tag string) {
	caseNo++
	s := &sys{w: sfake.NewWorld(), streams: streams, prefix: fmt.Sprintf("k%d", caseNo), next: map[int]int{}, cfg: &server.CDCServerConfig{MaxTaskNum: 100,
		Retry:        config.RetrySettings{RetryTimes: 1, InitBackOff: 1, MaxBackOff: 1},
		SourceConfig: server.MilvusSourceConfig{ReplicateChan: "rpc-chan"},
		Packer:       msgpacker.PackerConfig{MaxCount: maxcount, TimerInterval: 3600000, MaxMsgSize: 1}}}
	chset := map[string]bool{}
	for _, st := range streams {
		if !chset[st.ch] {
			chset[st.ch] = true
			s.chans = append(s.chans, st.ch)
		}
	}
	s.w.Epoch = 1
	s.cdc = server.NewVerifMetaCDC(s.cfg, &sfake.Factory{W: s.w, Epoch: 1}, nil)
	s.inject()
	created := map[string]bool{}
	for _, st := range streams {
		if created[st.task] {
			continue
		}
		created[st.task] = true
		if _, err := s.cdc.Create(&request.CreateRequest{TaskID: s.tid(st.task), KafkaConnectParam: model.KafkaConnectParam{Address: target, Topic: "t"},
			DBCollections: map[string][]model.CollectionInfo{"db1": {{Name: st.name}}}}); err != nil {
			panic(err)
		}
	}
	var lt, ot []string
	faults := 0
	for _, l := range labels {
		s.apply(l)
		lt = append(lt, labelCoq(l))
		ot = append(ot, s.observe())
		out.Count("label=" + l.kind)
		if l.wfail > 0 || l.pfail || l.fail {
			faults++
			out.Count("fault/" + l.kind)
		}
	}
	var st []string
	for _, x := range streams {
		st = append(st, fmt.Sprintf("{| s_task := %s; s_coll := %s; s_name := %s; s_pch := %s; s_ch := %s; s_len := %d%%nat |}",
			cq.Str(x.task), cq.Z(x.coll), cq.Str(x.name), cq.Str(x.pch), cq.Str(x.ch), x.n))
	}
	out.Add(fmt.Sprintf("{| c_max := %d%%nat; c_streams := %s; c_labels := %s; c_obs := %s |}", maxcount, cq.List(st), cq.List(lt), cq.List(ot)))
	out.Count(fmt.Sprintf("maxcount=%d", maxcount))
	out.Count(fmt.Sprintf("streams=%d", len(streams)))
	if len(labels) >= 6 && faults > 0 {
		out.NonTrivial(fmt.Sprint(maxcount, streams, labels))
	}
	out.Sample(map[string]interface{}{"tag": tag, "maxcount": maxcount, "streams": fmt.Sprint(streams), "labels": lt, "last_observation": ot[len(ot)-1]})
}

func main() {
	a := hx.Parse()
	config.InitCommonConfig(func(c *config.CommonConfig) {
		c.Retry = config.RetrySettings{RetryTimes: 1, InitBackOff: 1, MaxBackOff: 1}
	})
	server.SetVerifSyncFunc(func(point, key string) {
		select {
		case sigs <- sig{point, key}:
		default:
		}
	})
	imp := map[string]string{"c05": "From Verif Require Import Server.Data C05.Check.", "c06": "From Verif Require Import Server.Data C06.Check.", "c03r": "From Verif Require Import Server.Data C03.RCheck."}[*mode]
	out := cq.NewOut(a.Out, imp, "case", 100)
	r := a.Rng
	feed := func(k int) label { return label{kind: "feed", k: k} }
	// corpus
	one := []stream{{"a", 101, "c1", "src-dml_0", "tgt-dml_0", 8}}
	runCase(out, 2, one, []label{feed(0), feed(0), feed(0), {kind: "feed", k: 0, wfail: 2}, {kind: "resume", task: "a"}, feed(0), feed(0), feed(0)}, "corpus: write failure in the middle of a batch, resume")
	runCase(out, 2, one, []label{feed(0), feed(0), feed(0), {kind: "crash"}, feed(0), feed(0), feed(0), feed(0)}, "corpus: crash with a buffered pack")
	runCase(out, 1, one, []label{feed(0), {kind: "feed", k: 0, pfail: true}, {kind: "crash"}, feed(0), feed(0)}, "corpus: checkpoint write fails after the downstream write")
	two := []stream{{"a", 101, "c1", "src-dml_0", "tgt-dml_0", 6}, {"b", 102, "c2", "src-dml_0", "tgt-dml_0", 6}}
	runCase(out, 2, two, []label{feed(0), feed(1), feed(0), {kind: "feed", k: 1, wfail: 1}, feed(0), {kind: "crash"}, feed(0), feed(1), feed(0), feed(1)}, "corpus: two tasks on one downstream channel, one fails")
	runCase(out, 1, two, []label{feed(0), feed(1), {kind: "drop", k: 0}, feed(0), feed(1), {kind: "error", task: "b"}, {kind: "drop", k: 1}}, "corpus: drop event freezes the checkpoint; error event pauses its task")
	runCase(out, 3, one, []label{feed(0), {kind: "feed", k: 0, big: true}, {kind: "crash"}, feed(0), feed(0), feed(0), feed(0), feed(0)}, "corpus: an oversized pack behind a buffered one, then a crash")
	runCase(out, 4, two, []label{feed(0), feed(1), {kind: "feed", k: 0, big: true, wfail: 2}, {kind: "crash"}, feed(0), feed(1), feed(0), feed(1), feed(0), feed(1)}, "corpus: an oversized pack flushes the buffer, the second write fails")
	for id := 0; id < a.N; id++ {
		maxcount := 1 + r.Intn(4)
		ntasks := 1 + r.Intn(3)
		nch := 1 + r.Intn(2)
		var streams []stream
		for t := 0; t < ntasks; t++ {
			np := 1 + r.Intn(2)
			for p := 0; p < np; p++ {
				streams = append(streams, stream{task: string(rune('a' + t)), coll: int64(101 + t), name: fmt.Sprintf("c%d", t+1),
					pch: fmt.Sprintf("src-dml_%d", p), ch: fmt.Sprintf("tgt-dml_%d", r.Intn(nch)), n: 3 + r.Intn(6)})
			}
		}
		nl := 6 + r.Intn(20)
		var labels []label
		for j := 0; j < nl; j++ {
			x := r.Intn(100)
			k := r.Intn(len(streams))
			switch {
			case x < 70:
				l := feed(k)
				l.big = r.Intn(6) == 0
				switch r.Intn(10) {
				case 0:
					l.wfail = 1 + r.Intn(maxcount)
				case 1:
					if ntasks == 1 && len(streams) == 1 {
						l.pfail = true
					}
				}
				labels = append(labels, l)
			case x < 76:
				labels = append(labels, label{kind: "drop", k: k, fail: r.Intn(4) == 0})
			case x < 79:
				t := streams[k].task
				if r.Intn(3) == 0 {
					t = ""
				}
				labels = append(labels, label{kind: "error", task: t})
			case x < 85:
				labels = append(labels, label{kind: "pause", task: streams[k].task})
			case x < 92:
				labels = append(labels, label{kind: "resume", task: streams[k].task})
			default:
				labels = append(labels, label{kind: "crash"})
			}
		}
		// finish: restart and feed everything so that the end state can be judged
		if r.Intn(2) == 0 {
			labels = append(labels, label{kind: "crash"})
			for round := 0; round < 9; round++ {
				for k := range streams {
					labels = append(labels, feed(k))
				}
			}
			for k := range streams { // fill the last batches
				for j := 0; j < 3; j++ {
					labels = append(labels, feed(k))
				}
			}
		}
		runCase(out, maxcount, streams, labels, "random")
	}
	out.Extra["corpus_cases"] = 5
	out.Extra["sync_timeouts"] = timeouts
	if err := out.Flush(); err != nil {
		panic(err)
	}
}
