// h_c07: drives the real ChannelWriter.HandleReplicateMessage over a fake DataHandler that keeps the bytes it
// receives; the bytes are decoded with Milvus' own unmarshal dispatcher.
package main

import (
	"context"
	"crypto/sha256"
	"encoding/base64"
	"encoding/binary"
	"errors"
	"fmt"
	"math/rand"
	"sort"
	"sync"

	"github.com/milvus-io/milvus-proto/go-api/v2/commonpb"
	"github.com/milvus-io/milvus-proto/go-api/v2/msgpb"
	"github.com/milvus-io/milvus-proto/go-api/v2/schemapb"
	"github.com/milvus-io/milvus/pkg/mq/msgstream"
	"google.golang.org/protobuf/proto"

	"github.com/zilliztech/milvus-cdc/core/api"
	"github.com/zilliztech/milvus-cdc/core/config"
	"github.com/zilliztech/milvus-cdc/core/util"
	"github.com/zilliztech/milvus-cdc/core/writer"

	"verifharness/lib/cq"
	"verifharness/lib/hx"
)

type dmsg struct {
	kind      string
	id        uint64
	db, coll  string
	ts, endts uint64
	digest    uint64
	rep       bool
	rid       string
}

func (d dmsg) term() string {
	return fmt.Sprintf("{| d_kind := %s; d_id := %s; d_db := %s; d_coll := %s; d_ts := %s; d_endts := %s; d_digest := %s; d_rep := %s; d_rid := %s |}",
		d.kind, cq.N(d.id), cq.Str(d.db), cq.Str(d.coll), cq.N(d.ts), cq.N(d.endts), cq.N(d.digest), cq.Bool(d.rep), cq.Str(d.rid))
}

func h64(b []byte) uint64 {
	s := sha256.Sum256(b)
	return binary.BigEndian.Uint64(s[:8]) >> 1
}

func marshalDet(m proto.Message) []byte {
	b, err := proto.MarshalOptions{Deterministic: true}.Marshal(m)
	if err != nil {
		panic(err)
	}
	return b
}

// abstract describes a message by the fields the writer may touch plus a digest of everything else.
func abstract(m msgstream.TsMsg, wire bool) dmsg {
	d := dmsg{}
	if !wire {
		d.endts = m.EndTs()
	}
	setBase := func(b *commonpb.MsgBase) {
		d.id, d.ts = uint64(b.GetMsgID()), b.GetTimestamp()
		d.rep, d.rid = b.GetReplicateInfo().GetIsReplicate(), b.GetReplicateInfo().GetReplicateID()
	}
	switch x := m.(type) {
	case *msgstream.InsertMsg:
		c := proto.Clone(x.InsertRequest).(*msgpb.InsertRequest)
		d.kind, d.db, d.coll = "MInsert", c.DbName, c.CollectionName
		setBase(c.Base)
		c.Base, c.DbName, c.CollectionName = nil, "", ""
		d.digest = h64(marshalDet(c))
	case *msgstream.DeleteMsg:
		c := proto.Clone(x.DeleteRequest).(*msgpb.DeleteRequest)
		d.kind, d.db, d.coll = "MDelete", c.DbName, c.CollectionName
		setBase(c.Base)
		c.Base, c.DbName, c.CollectionName = nil, "", ""
		d.digest = h64(marshalDet(c))
	case *msgstream.DropPartitionMsg:
		c := proto.Clone(x.DropPartitionRequest).(*msgpb.DropPartitionRequest)
		d.kind, d.db, d.coll = "MDropPartition", c.DbName, c.CollectionName
		setBase(c.Base)
		c.Base, c.DbName, c.CollectionName = nil, "", ""
		d.digest = h64(marshalDet(c))
	case *msgstream.DropCollectionMsg:
		c := proto.Clone(x.DropCollectionRequest).(*msgpb.DropCollectionRequest)
		d.kind, d.db, d.coll = "MDropCollection", c.DbName, c.CollectionName
		setBase(c.Base)
		c.Base, c.DbName, c.CollectionName = nil, "", ""
		d.digest = h64(marshalDet(c))
	case *msgstream.ImportMsg:
		c := proto.Clone(x.ImportMsg).(*msgpb.ImportMsg)
		d.kind, d.db, d.coll = "MImport", c.DbName, c.CollectionName
		setBase(c.Base)
		c.Base, c.DbName, c.CollectionName = nil, "", ""
		d.digest = h64(marshalDet(c))
	case *msgstream.TimeTickMsg:
		c := proto.Clone(x.TimeTickMsg).(*msgpb.TimeTickMsg)
		d.kind = "MTick"
		setBase(c.Base)
		c.Base = nil
		d.digest = h64(marshalDet(c))
	case *msgstream.ReplicateMsg:
		c := proto.Clone(x.ReplicateMsg).(*msgpb.ReplicateMsg)
		d.kind, d.db, d.coll = "MReplicate", c.Database, c.Collection
		setBase(c.Base)
		c.Base, c.Database, c.Collection = nil, "", ""
		d.digest = h64(marshalDet(c))
	default:
		panic(fmt.Sprintf("unexpected message %T", m))
	}
	return d
}

type pos struct {
	ch, id string
	ts     uint64
}

func posTerm(p pos) string {
	return fmt.Sprintf("{| p_chan := %s; p_id := %s; p_ts := %s |}", cq.Str(p.ch), cq.Str(p.id), cq.N(p.ts))
}
func fromPB(ps []*msgpb.MsgPosition) []pos {
	out := make([]pos, len(ps))
	for i, p := range ps {
		out[i] = pos{p.ChannelName, string(p.MsgID), p.Timestamp}
	}
	return out
}

type rparam struct {
	ch          string
	begin, end  uint64
	start, endp []pos
	flag        bool
	msgs        []dmsg
}

func (p rparam) term() string {
	return fmt.Sprintf("{| pa_chan := %s; pa_begin := %s; pa_end := %s; pa_start := %s; pa_endp := %s; pa_flag := %s; pa_msgs := %s |}",
		cq.Str(p.ch), cq.N(p.begin), cq.N(p.end), cq.MapList(p.start, posTerm), cq.MapList(p.endp, posTerm), cq.Bool(p.flag),
		cq.MapList(p.msgs, func(d dmsg) string { return d.term() }))
}

type fakeHandler struct {
	api.DefaultDataHandler
	mu      sync.Mutex
	log     map[string][]rparam
	failKey map[string]bool // "<channel>/<end msg id>" of the calls that must fail
	disp    *msgstream.ProtoUnmarshalDispatcher
	last    map[string]*rparam // by "<channel>/<end id>"
}

func (f *fakeHandler) ReplicateMessage(ctx context.Context, p *api.ReplicateMessageParam) error {
	rp := rparam{ch: p.ChannelName, begin: p.BeginTs, end: p.EndTs, start: fromPB(p.StartPositions), endp: fromPB(p.EndPositions),
		flag: p.Base.GetReplicateInfo().GetIsReplicate()}
	for _, b := range p.MsgsBytes {
		header := commonpb.MsgHeader{}
		if err := proto.Unmarshal(b, &header); err != nil {
			panic(err)
		}
		m, err := f.disp.Unmarshal(b, header.GetBase().GetMsgType())
		if err != nil {
			panic(err)
		}
		rp.msgs = append(rp.msgs, abstract(m, true))
	}
	key := p.ChannelName + "/" + string(p.EndPositions[len(p.EndPositions)-1].MsgID)
	f.mu.Lock()
	f.log[p.ChannelName] = append(f.log[p.ChannelName], rp)
	f.last[key] = &rp
	fail := f.failKey[key]
	f.mu.Unlock()
	if fail {
		return errors.New("injected downstream failure")
	}
	p.TargetMsgPosition = base64.StdEncoding.EncodeToString([]byte("tgt-" + key))
	return nil
}

func randStr(r *rand.Rand) string {
	al := []string{"a", "b", "_", ".", "Z", "0", "-", "é"}
	n := r.Intn(5)
	s := ""
	for i := 0; i < n; i++ {
		s += al[r.Intn(len(al))]
	}
	return s
}

func genMsg(r *rand.Rand, id int64, dbs, colls []string) msgstream.TsMsg {
	db, coll := dbs[r.Intn(len(dbs))], colls[r.Intn(len(colls))]
	ts := uint64(100 + r.Intn(1000))
	bm := msgstream.BaseMsg{BeginTimestamp: ts, EndTimestamp: ts + uint64(r.Intn(3)), HashValues: []uint32{uint32(r.Intn(4))}}
	base := func(t commonpb.MsgType) *commonpb.MsgBase {
		b := &commonpb.MsgBase{MsgType: t, MsgID: id, Timestamp: ts, SourceID: int64(r.Intn(5))}
		if r.Intn(4) == 0 {
			b.ReplicateInfo = &commonpb.ReplicateInfo{IsReplicate: r.Intn(2) == 0, ReplicateID: randStr(r)}
		}
		return b
	}
	switch r.Intn(7) {
	case 0, 1:
		n := r.Intn(6)
		req := &msgpb.InsertRequest{Base: base(commonpb.MsgType_Insert), DbName: db, CollectionName: coll, PartitionName: randStr(r),
			CollectionID: r.Int63n(1000), PartitionID: r.Int63n(1000), ShardName: "by-dev-dml_" + randStr(r), NumRows: uint64(n), Version: msgpb.InsertDataVersion_ColumnBased}
		ids := make([]int64, n)
		for i := 0; i < n; i++ {
			req.Timestamps = append(req.Timestamps, ts+uint64(r.Intn(3)))
			req.RowIDs = append(req.RowIDs, r.Int63())
			ids[i] = r.Int63n(100)
		}
		req.FieldsData = []*schemapb.FieldData{{Type: schemapb.DataType_Int64, FieldName: "pk", FieldId: 100,
			Field: &schemapb.FieldData_Scalars{Scalars: &schemapb.ScalarField{Data: &schemapb.ScalarField_LongData{LongData: &schemapb.LongArray{Data: ids}}}}}}
		return &msgstream.InsertMsg{BaseMsg: bm, InsertRequest: req}
	case 2:
		n := r.Intn(5)
		req := &msgpb.DeleteRequest{Base: base(commonpb.MsgType_Delete), DbName: db, CollectionName: coll, PartitionName: randStr(r),
			CollectionID: r.Int63n(1000), PartitionID: r.Int63n(1000), ShardName: "by-dev-dml_" + randStr(r), NumRows: int64(n)}
		ids := make([]int64, n)
		for i := range ids {
			ids[i] = r.Int63n(100)
			req.Timestamps = append(req.Timestamps, ts)
		}
		req.PrimaryKeys = &schemapb.IDs{IdField: &schemapb.IDs_IntId{IntId: &schemapb.LongArray{Data: ids}}}
		return &msgstream.DeleteMsg{BaseMsg: bm, DeleteRequest: req}
	case 3:
		return &msgstream.DropPartitionMsg{BaseMsg: bm, DropPartitionRequest: &msgpb.DropPartitionRequest{Base: base(commonpb.MsgType_DropPartition),
			DbName: db, CollectionName: coll, PartitionName: randStr(r), CollectionID: r.Int63n(1000), PartitionID: r.Int63n(1000)}}
	case 4:
		return &msgstream.DropCollectionMsg{BaseMsg: bm, DropCollectionRequest: &msgpb.DropCollectionRequest{Base: base(commonpb.MsgType_DropCollection),
			DbName: db, CollectionName: coll, CollectionID: r.Int63n(1000)}}
	case 5:
		return &msgstream.ImportMsg{BaseMsg: bm, ImportMsg: &msgpb.ImportMsg{Base: base(commonpb.MsgType_Import), DbName: db, CollectionName: coll,
			CollectionID: r.Int63n(1000), PartitionIDs: []int64{r.Int63n(100)}, Files: []*msgpb.ImportFile{{Id: 1, Paths: []string{randStr(r)}}}, JobID: r.Int63n(99)}}
	default:
		return &msgstream.TimeTickMsg{BaseMsg: bm, TimeTickMsg: &msgpb.TimeTickMsg{Base: base(commonpb.MsgType_TimeTick)}}
	}
}

var shapes = [][][4]string{nil, {{"db1", "c1", "tdb", "c1x"}}, {{"db1", "*", "tdb", "*"}}, {{"db1", "c1", "tdb", "c1x"}, {"db1", "*", "tdb", "*"}}, {{"default", "c1", "tdb", "c1x"}}, {{"db9", "c9", "x", "y"}}}

func main() {
	a := hx.Parse()
	o := cq.NewOut(a.Out, "From Verif Require Import Writer.Model C07.Model.", "case", 200)
	r := a.Rng
	// digest of the body of a converted tick (ReplicateMsg with IsEnd=false and empty names)
	dtick := h64(marshalDet(&msgpb.ReplicateMsg{}))
	for n := 0; n < a.N; n++ {
		rid := ""
		if r.Intn(2) == 0 {
			rid = "rid-" + randStr(r)
			if rid == "rid-" {
				rid = "rid-x"
			}
		}
		nm := shapes[r.Intn(len(shapes))]
		fh := &fakeHandler{log: map[string][]rparam{}, failKey: map[string]bool{}, last: map[string]*rparam{}, disp: (&msgstream.ProtoUDFactory{}).NewUnmarshalDispatcher()}
		w := writer.NewChannelWriter(fh, nil, config.WriterConfig{MessageBufferSize: 1 + r.Intn(4), ReplicateID: rid}, nil, "milvus")
		m := map[string]string{}
		for _, e := range nm {
			m[util.GetFullCollectionName(e[1], e[0])] = util.GetFullCollectionName(e[3], e[2])
		}
		w.(*writer.ChannelWriter).UpdateNameMappings(m)
		// a third of the histories go on after the mapping has been extended (UpdateNameMappings merges): a second case over the
		// same writer with the merged mapping - names of messages seen before the update are mapped by the new mapping too
		phases := 1
		if r.Intn(3) == 0 {
			phases = 2
		}
		for phase := 0; phase < phases; phase++ {
			if phase == 1 {
				add := shapes[1+r.Intn(len(shapes)-1)]
				m2 := map[string]string{}
				merged := map[[2]string][4]string{}
				for _, e := range nm {
					merged[[2]string{e[0], e[1]}] = e
				}
				for _, e := range add {
					m2[util.GetFullCollectionName(e[1], e[0])] = util.GetFullCollectionName(e[3], e[2])
					merged[[2]string{e[0], e[1]}] = e
				}
				w.(*writer.ChannelWriter).UpdateNameMappings(m2)
				var keys [][2]string
				for k := range merged {
					keys = append(keys, k)
				}
				sort.Slice(keys, func(i, j int) bool { return keys[i][0]+"/"+keys[i][1] < keys[j][0]+"/"+keys[j][1] })
				nm = nil
				for _, k := range keys {
					nm = append(nm, merged[k])
				}
				fh.mu.Lock()
				fh.log, fh.failKey, fh.last = map[string][]rparam{}, map[string]bool{}, map[string]*rparam{}
				fh.mu.Unlock()
				o.Count("second phase after a mapping update")
			}
			nch := 1 + r.Intn(4)
			type call struct {
				ch    string
				pack  *msgstream.MsgPack
				src   []dmsg
				fail  bool
				endID string
			}
			perChan := make([][]call, nch)
			var all []call
			id := int64(1)
			for c := 0; c < nch; c++ {
				ch := fmt.Sprintf("by-dev-rootcoord-dml_%d", c)
				for k := 0; k < 1+r.Intn(4); k++ {
					p := &msgstream.MsgPack{BeginTs: uint64(r.Intn(1000)), EndTs: uint64(1000 + r.Intn(1000))}
					nmsg := r.Intn(5)
					if r.Intn(8) == 0 {
						nmsg = 0
					}
					var src []dmsg
					for i := 0; i < nmsg; i++ {
						mm := genMsg(r, id, []string{"", "default", "db1", "db2"}, []string{"c1", "c2"})
						id++
						src = append(src, abstract(mm, false))
						p.Msgs = append(p.Msgs, mm)
					}
					endID := fmt.Sprintf("e%d-%d", c, k)
					for i := 0; i < 1+r.Intn(2); i++ {
						p.StartPositions = append(p.StartPositions, &msgpb.MsgPosition{ChannelName: ch, MsgID: []byte(fmt.Sprintf("s%d-%d-%d", c, k, i)), Timestamp: uint64(r.Intn(2000))})
					}
					for i := 0; i < r.Intn(2); i++ {
						p.EndPositions = append(p.EndPositions, &msgpb.MsgPosition{ChannelName: ch, MsgID: []byte(fmt.Sprintf("x%d-%d-%d", c, k, i)), Timestamp: uint64(r.Intn(2000))})
					}
					p.EndPositions = append(p.EndPositions, &msgpb.MsgPosition{ChannelName: ch, MsgID: []byte(endID), Timestamp: uint64(r.Intn(2000))})
					cl := call{ch: ch, pack: p, src: src, fail: nmsg > 0 && r.Intn(5) == 0, endID: endID}
					if cl.fail {
						fh.failKey[ch+"/"+endID] = true
					}
					perChan[c] = append(perChan[c], cl)
				}
			}
			// one goroutine per channel (calls on one channel are sequential, channels run concurrently)
			type res struct {
				id  []byte
				err error
				rp  *rparam
			}
			results := make([][]res, nch)
			var wg sync.WaitGroup
			for c := 0; c < nch; c++ {
				wg.Add(1)
				go func(c int) {
					defer wg.Done()
					for _, cl := range perChan[c] {
						idb, _, err := w.HandleReplicateMessage(context.Background(), cl.ch, cl.pack)
						fh.mu.Lock()
						rp := fh.last[cl.ch+"/"+cl.endID]
						fh.mu.Unlock()
						results[c] = append(results[c], res{idb, err, rp})
					}
				}(c)
			}
			wg.Wait()
			var callTerms, obsTerms, logTerms []string
			for c := 0; c < nch; c++ {
				for k, cl := range perChan[c] {
					all = append(all, cl)
					packTerm := fmt.Sprintf("{| rp_begin := %s; rp_end := %s; rp_start := %s; rp_endp := %s; rp_msgs := %s |}",
						cq.N(cl.pack.BeginTs), cq.N(cl.pack.EndTs), cq.MapList(fromPB(cl.pack.StartPositions), posTerm), cq.MapList(fromPB(cl.pack.EndPositions), posTerm),
						cq.MapList(cl.src, func(d dmsg) string { return d.term() }))
					callTerms = append(callTerms, fmt.Sprintf("{| rc_chan := %s; rc_pack := %s; rc_fail := %s |}", cq.Str(cl.ch), packTerm, cq.Bool(cl.fail)))
					rs := results[c][k]
					pt := "None"
					if rs.rp != nil {
						pt = cq.Some(rs.rp.term())
					}
					rt := "RErr"
					if rs.err == nil {
						rt = cq.App("ROk", cq.Str(string(rs.id)))
					}
					obsTerms = append(obsTerms, fmt.Sprintf("{| ro_param := %s; ro_res := %s |}", pt, rt))
				}
				ch := fmt.Sprintf("by-dev-rootcoord-dml_%d", c)
				logTerms = append(logTerms, cq.Pair(cq.Str(ch), cq.MapList(fh.log[ch], func(p rparam) string { return p.term() })))
			}
			nmTerm := cq.MapList(nm, func(m [4]string) string {
				return cq.Pair(cq.Pair(cq.Str(m[0]), cq.Str(m[1])), cq.Pair(cq.Str(m[2]), cq.Str(m[3])))
			})
			o.Add(fmt.Sprintf("{| c_rid := %s; c_nm := %s; c_dtick := %s; c_calls := %s; c_obs := %s; c_chanlog := %s |}",
				cq.Str(rid), nmTerm, cq.N(dtick), cq.List(callTerms), cq.List(obsTerms), cq.List(logTerms)))
			o.Count(fmt.Sprintf("channels=%d", nch))
			if rid != "" {
				o.Count("with-replicate-id")
			}
			o.Count(fmt.Sprintf("mapping-entries=%d", len(nm)))
			nmsgs := 0
			for _, cl := range all {
				nmsgs += len(cl.src)
				for _, d := range cl.src {
					o.Count("msg:" + d.kind)
				}
				if cl.fail {
					o.Count("failing-call")
				}
				if len(cl.src) == 0 {
					o.Count("empty-pack")
				}
			}
			if nmsgs >= 2 {
				o.NonTrivial(fmt.Sprint(callTerms))
			}
			o.Sample(map[string]interface{}{"replicate_id": rid, "mapping": nmTerm, "first_call": callTerms[0], "first_observation": obsTerms[0]})
		}
	}
	if err := o.Flush(); err != nil {
		panic(err)
	}
}
