// h_c05e: the create-collection event against the real event loop of MetaCDC (server/cdc_impl.go startReplicateAPIEvent)
// over lib/sfake, with a crash of the process after n durable effects of an event (a checkpoint write, a downstream
// acknowledgement): the fakes stop answering the dead incarnation.  A restart is a new MetaCDC on the same store with the
// real ReloadTask / startInternal / CollectionReader; the fake channel manager records with which seek positions every
// collection is started.  After every label: collections with a checkpoint, collections acknowledged downstream, the
// persisted task state, every start of a collection so far (collection, acknowledged downstream then, seek given).
package main

import (
	"fmt"
	"os"
	"sort"
	"strconv"
	"strings"
	"time"

	"github.com/zilliztech/milvus-cdc/core/api"
	"github.com/zilliztech/milvus-cdc/core/config"
	"github.com/zilliztech/milvus-cdc/server"
	"github.com/zilliztech/milvus-cdc/server/model"
	"github.com/zilliztech/milvus-cdc/server/model/meta"
	"github.com/zilliztech/milvus-cdc/server/model/request"
	"github.com/zilliztech/milvus-cdc/server/msgpacker"

	"verifharness/lib/cq"
	"verifharness/lib/hx"
	"verifharness/lib/sfake"
)

const target = "127.0.0.1:19092"
const pch = "src-dml_0"

type lab struct {
	kind         string // create pause resume restart
	c            int
	pfail, wfail bool
	cut          int // -1: no crash point
}

type sig struct{ point, key string }

var sigs = make(chan sig, 4096)

type sys struct {
	w      *sfake.World
	cfg    *server.CDCServerConfig
	cdc    *server.MetaCDC
	cm     *sfake.CM
	cat    *sfake.MetaOp
	task   string
	dead   bool
	evloop bool
	cur    string
	slow   int
}

func drain() {
	for {
		select {
		case <-sigs:
		default:
			return
		}
	}
}

func (s *sys) hasEntity() bool {
	for _, e := range s.cdc.VerifSnapshot().Entities {
		if e.Key == target {
			return true
		}
	}
	return false
}

func (s *sys) epoch() int {
	s.w.Mu.Lock()
	defer s.w.Mu.Unlock()
	return s.w.Epoch
}

func (s *sys) inject() {
	s.cm = sfake.NewCM(s.w)
	s.cdc.VerifPutEntity(target, s.cm, nil, s.cat, &sfake.Writer{DefaultWriter: &api.DefaultWriter{}, W: s.w, Fence: true, Epoch: s.epoch()}, sfake.NewDisp(s.w))
	s.evloop = true
}

func (s *sys) boot() {
	s.cdc = server.NewVerifMetaCDC(s.cfg, &sfake.Factory{W: s.w, Epoch: s.epoch()}, nil)
	s.dead = false
	s.evloop = false
}

func (s *sys) coll(c int) sfake.Coll {
	return sfake.Coll{ID: int64(c), DB: "db1", DBID: 2, Name: fmt.Sprintf("c%d", c), PChs: []string{pch},
		VChs: []string{fmt.Sprintf("%s_%dv0", pch, c)}, Start: [][]byte{{7, byte(c)}}, CTime: 50}
}

func (s *sys) runningStored() bool {
	ti := s.w.TaskInfos()[s.task]
	return ti != nil && ti.State == meta.TaskStateRunning
}

// wait until the event has been dealt with: the loop reports it, or the loop has ended, or the process is dead
func (s *sys) waitEvent(crashes int) {
	dl := time.Now().Add(2 * time.Second)
	for {
		select {
		case x := <-sigs:
			if s.w.CrashCount() > crashes {
				break // the report of an incarnation that has just died
			}
			if x.point == "event" {
				return
			}
			if x.point == "event-exit" {
				s.evloop = false
				return
			}
		default:
		}
		if s.w.CrashCount() > crashes {
			s.dead = true
			s.evloop = false
			time.Sleep(2 * time.Millisecond) // what the dead incarnation still reports is dropped by the next drain
			return
		}
		if time.Now().After(dl) {
			s.slow++
			fmt.Fprintln(os.Stderr, "wait ran into its limit:", s.task, s.cur)
			return
		}
		time.Sleep(100 * time.Microsecond)
	}
}

func (s *sys) apply(l lab) {
	drain()
	s.cur = labCoq(l)
	switch l.kind {
	case "create":
		found := false
		for _, c := range s.cat.Colls {
			found = found || c.ID == int64(l.c)
		}
		if !found {
			s.cat.Colls = append(s.cat.Colls, s.coll(l.c))
		}
		if s.dead || !s.evloop {
			return
		}
		crashes := s.w.CrashCount()
		if s.runningStored() {
			if l.pfail {
				s.w.FailNext("pos.put", 1)
			}
			if l.wfail {
				s.w.FailNext("event", 1)
			}
			if l.cut >= 0 {
				s.w.CrashAfter(l.cut)
			}
		}
		if s.w.CrashCount() > crashes {
			s.dead, s.evloop = true, false // crash before anything of this event
			return
		}
		s.cm.EvCh <- &api.ReplicateAPIEvent{EventType: api.ReplicateCreateCollection, TaskID: s.task,
			CollectionInfo: s.cat.Info(s.coll(l.c)), ReplicateParam: api.ReplicateParam{Database: "db1"}}
		s.waitEvent(crashes)
		s.w.ClearFaults()
		s.w.ClearCrash()
	case "pause":
		if s.dead {
			return
		}
		_, _ = s.cdc.Pause(&request.PauseRequest{TaskID: s.task})
	case "resume":
		if s.dead || s.runningStored() {
			return
		}
		if !s.hasEntity() {
			s.inject()
		}
		_, _ = s.cdc.Resume(&request.ResumeRequest{TaskID: s.task})
	case "restart":
		s.w.CrashAfter(0) // whatever still runs is dead now
		s.boot()
		s.inject()
		s.cdc.ReloadTask() // starts every task, also a paused one
	}
	// after anything that may have released the entity: its event loop ends
	if !s.dead && s.evloop && !s.hasEntity() {
		dl := time.Now().Add(5 * time.Second)
		for s.evloop && time.Now().Before(dl) {
			select {
			case x := <-sigs:
				if x.point == "event-exit" {
					s.evloop = false
				}
			default:
				time.Sleep(100 * time.Microsecond)
			}
		}
		if s.evloop {
			s.slow++
			fmt.Fprintln(os.Stderr, "wait for the end of the event loop ran into its limit:", s.task, s.cur)
			s.evloop = false
		}
	}
}

func nats(m map[int]bool) string {
	var ks []int
	for k := range m {
		ks = append(ks, k)
	}
	sort.Ints(ks)
	var o []string
	for _, k := range ks {
		o = append(o, cq.Nat(k))
	}
	return cq.List(o)
}

func (s *sys) observe() string {
	ck := map[int]bool{}
	for _, p := range s.w.Positions() {
		if p.TaskID == s.task {
			if pi, ok := p.Positions[pch]; ok && pi != nil {
				ck[int(p.CollectionID)] = true
			}
		}
	}
	dn := map[int]bool{}
	var seeks []string
	for _, e := range s.w.LogFrom(0) {
		switch {
		case e.Kind == "event.ack" && strings.HasPrefix(e.Key, "CreateCollection/"):
			id, _ := strconv.Atoi(strings.TrimPrefix(e.Key, "CreateCollection/"))
			dn[id] = true
		case e.Kind == "start":
			id, _ := strconv.Atoi(e.Key)
			seeks = append(seeks, fmt.Sprintf("(%s, %s, %s)", cq.Nat(id), cq.Bool(dn[id]), cq.Bool(strings.Contains(e.Val, pch+"="))))
		}
	}
	return fmt.Sprintf("(%s, %s, %s, %s)", nats(ck), nats(dn), cq.Bool(s.runningStored()), cq.List(seeks))
}

func labCoq(l lab) string {
	switch l.kind {
	case "create":
		cut := "None"
		if l.cut >= 0 {
			cut = fmt.Sprintf("(Some %d)", l.cut)
		}
		return fmt.Sprintf("(LCreate %d %s %s %s)", l.c, cq.Bool(l.pfail), cq.Bool(l.wfail), cut)
	case "pause":
		return "LPause"
	case "resume":
		return "LResume"
	}
	return "LRestart"
}

var caseNo int

func runCase(out *cq.Out, ls []lab, tag string) {
	caseNo++
	w := sfake.NewWorld()
	w.ExitDead = true
	s := &sys{w: w, task: fmt.Sprintf("k%dt1", caseNo), cat: &sfake.MetaOp{DefaultMetaOp: &api.DefaultMetaOp{}, W: w},
		cfg: &server.CDCServerConfig{MaxTaskNum: 100, Retry: config.RetrySettings{RetryTimes: 1, InitBackOff: 1, MaxBackOff: 1},
			SourceConfig: server.MilvusSourceConfig{ReplicateChan: "rpc-chan"}, Packer: msgpacker.PackerConfig{MaxCount: 2, TimerInterval: 3600000}}}
	s.boot()
	s.inject()
	if _, err := s.cdc.Create(&request.CreateRequest{TaskID: s.task, KafkaConnectParam: model.KafkaConnectParam{Address: target, Topic: "t"},
		DBCollections: map[string][]model.CollectionInfo{"db1": {{Name: "*"}}}}); err != nil {
		panic(err)
	}
	var lt, ot []string
	cuts, fails := 0, 0
	for _, l := range ls {
		s.apply(l)
		lt = append(lt, labCoq(l))
		ot = append(ot, s.observe())
		out.Count("label=" + l.kind)
		if l.kind == "create" && l.cut >= 0 {
			cuts++
			out.Count(fmt.Sprintf("crash point %d", l.cut))
		}
		if l.pfail || l.wfail {
			fails++
		}
	}
	if s.slow > 0 {
		out.Count("waits that ran into their limit")
	}
	out.Add(fmt.Sprintf("{| ec_ops := %s; ec_obs := %s |}", cq.List(lt), cq.List(ot)))
	if cuts > 0 && len(ls) >= 3 {
		out.NonTrivial(fmt.Sprint(lt))
	}
	out.Sample(map[string]interface{}{"tag": tag, "labels": lt, "last_observation": ot[len(ot)-1]})
	// leave the incarnation of this case dead (its goroutines stay blocked on the fakes)
	w.CrashAfter(0)
}

func main() {
	a := hx.Parse()
	config.InitCommonConfig(func(c *config.CommonConfig) {
		c.Retry = config.RetrySettings{RetryTimes: 1, InitBackOff: 1, MaxBackOff: 1}
	})
	server.SetVerifSyncFunc(func(point, key string) {
		select {
		case sigs <- sig{point, key}:
		default:
		}
	})
	out := cq.NewOut(a.Out, "From Verif Require Import C05.ECheck.", "ecase", 100)
	r := a.Rng
	cr := func(c int) lab { return lab{kind: "create", c: c, cut: -1} }
	runCase(out, []lab{cr(1), {kind: "create", c: 2, cut: 1}, {kind: "restart"}, cr(3)}, "corpus: crash between the two effects of a create event, restart")
	runCase(out, []lab{cr(1), {kind: "create", c: 2, cut: 2}, {kind: "restart"}, {kind: "create", c: 3, wfail: true, cut: -1}, {kind: "resume"}, cr(3)},
		"corpus: crash after both effects; a refused creation, resume, the event again")
	runCase(out, []lab{{kind: "restart"}, {kind: "create", c: 1, cut: 0}, cr(2), {kind: "restart"}, cr(5), cr(1)}, "corpus: restarts around a crash before anything of an event")
	for i := 0; i < a.N; i++ {
		n := 3 + r.Intn(7)
		var ls []lab
		next := 1
		var undone []int // collections whose creation has not been acknowledged (the channel manager sends the event again)
		for k := 0; k < n; k++ {
			x := r.Intn(10)
			switch {
			case x < 5:
				l := lab{kind: "create", c: next, cut: -1}
				if len(undone) > 0 && r.Intn(2) == 0 {
					l.c = undone[0]
					undone = undone[1:]
				} else {
					next++
				}
				switch r.Intn(6) {
				case 0:
					l.pfail = true
				case 1:
					l.wfail = true
				case 2, 3:
					l.cut = r.Intn(3)
				}
				if l.pfail || l.wfail || l.cut >= 0 {
					undone = append(undone, l.c)
				}
				ls = append(ls, l)
			case x < 6:
				ls = append(ls, lab{kind: "pause"})
			case x < 8:
				ls = append(ls, lab{kind: "resume"})
			default:
				ls = append(ls, lab{kind: "restart"})
			}
		}
		runCase(out, ls, "generated")
	}
	if err := out.Flush(); err != nil {
		fmt.Fprintln(os.Stderr, err)
		os.Exit(1)
	}
}
