// h_c14: drives the real msgpacker.Packer (several packers sharing the global memory protector).
package main

import (
	"errors"
	"fmt"
	"time"

	"github.com/milvus-io/milvus/pkg/mq/msgstream"

	"github.com/zilliztech/milvus-cdc/core/api"
	"github.com/zilliztech/milvus-cdc/server/msgpacker"

	"verifharness/lib/cq"
	"verifharness/lib/hx"
)

type fakeMsg struct {
	msgstream.TsMsg
	sz int
}

func (f *fakeMsg) Size() int { return f.sz }

type op struct {
	recv  bool
	i     int
	id    uint64
	parts []int // sizes of the TsMsgs inside the pack; the pack size is their sum
	fired bool
	fail  bool
}

const fireIntervalMs = 20

// returns false if the case had to be discarded because of ambiguous timing
func runCase(o *cq.Out, k int, maxCount, maxSizeKB, memKB int, timed bool, ops []op) bool {
	interval := 3600000
	if timed {
		interval = fireIntervalMs
	}
	msgpacker.VerifResetMemoryProtector(0) // max==0 => the next NewPacker sets the limit, as in production
	packers := make([]*msgpacker.Packer, k)
	last := make([]time.Time, k)
	for i := range packers {
		packers[i] = msgpacker.NewPacker(msgpacker.PackerConfig{TimerInterval: interval, MaxCount: maxCount, MaxMsgSize: maxSizeKB, MemoryLimit: memKB})
		last[i] = time.Now()
	}
	idOf := map[*api.ReplicateMsg]uint64{}
	var calls, errs, curs, opTerms []string
	ncalls := 0
	for _, p := range ops {
		who := p.i
		fail := p.fail
		cb := func(ms []*api.ReplicateMsg) error {
			ids := make([]string, len(ms))
			for x, m := range ms {
				ids[x] = cq.N(idOf[m])
			}
			calls = append(calls, cq.Pair(cq.Nat(who), cq.List(ids)))
			ncalls++
			if fail {
				return errors.New("injected callback failure")
			}
			return nil
		}
		before := ncalls
		var err error
		if p.recv {
			total := 0
			pack := &msgstream.MsgPack{}
			for _, s := range p.parts {
				pack.Msgs = append(pack.Msgs, &fakeMsg{sz: s})
				total += s
			}
			m := &api.ReplicateMsg{MsgPack: pack}
			idOf[m] = p.id
			if timed {
				if p.fired {
					for time.Since(last[who]) < (fireIntervalMs+8)*time.Millisecond {
						time.Sleep(2 * time.Millisecond)
					}
				} else if time.Since(last[who]) > (fireIntervalMs-12)*time.Millisecond {
					return false
				}
			}
			err = packers[who].Receive(m, cb)
			if timed && !p.fired && time.Since(last[who]) > (fireIntervalMs-10)*time.Millisecond {
				return false
			}
			opTerms = append(opTerms, cq.App("Recv", cq.Nat(who), cq.N(p.id), cq.Z(int64(total)), cq.Bool(timed && p.fired), cq.Bool(fail)))
		} else {
			err = packers[who].ClearMsgs(cb)
			opTerms = append(opTerms, cq.App("Clear", cq.Nat(who), cq.Bool(fail)))
		}
		if ncalls > before {
			last[who] = time.Now()
		}
		errs = append(errs, cq.Bool(err != nil))
		curs = append(curs, cq.Z(int64(msgpacker.VerifMemoryCurrent())))
	}
	// NewPacker defaults non-positive thresholds
	mc, ms, mm := maxCount, maxSizeKB, memKB
	if mc <= 0 {
		mc = msgpacker.DefaultMaxCount
	}
	if ms <= 0 {
		ms = msgpacker.DefaultMaxMsgSize
	}
	if mm <= 0 {
		mm = msgpacker.DefaultMemoryLimit
	}
	term := fmt.Sprintf("{| c_k := %s; c_cfg := {| max_count := %s; max_size := %s; mem_max := %s |}; c_ops := %s; c_calls := %s; c_errs := %s; c_curs := %s |}",
		cq.Nat(k), cq.Z(int64(mc)), cq.Z(int64(ms)*1024), cq.Z(int64(mm)*1024), cq.List(opTerms), cq.List(calls), cq.List(errs), cq.List(curs))
	o.Add(term)
	o.Count(fmt.Sprintf("packers=%d", k))
	o.Count(fmt.Sprintf("callbacks=%d", min(ncalls, 6)))
	if timed {
		o.Count("timer-controlled")
	}
	if ncalls >= 2 {
		o.NonTrivial(fmt.Sprint(k, maxCount, maxSizeKB, memKB, ops))
	}
	o.Sample(map[string]interface{}{"packers": k, "max_count": mc, "max_size_kb": ms, "mem_kb": mm, "ops": opTerms, "calls": calls, "errs": errs, "global_counter": curs})
	return true
}

func main() {
	a := hx.Parse()
	o := cq.NewOut(a.Out, "From Verif Require Import C14.Model.", "case", 400)
	discarded := 0
	for n := 0; n < a.N; n++ {
		r := a.Rng
		k := 1 + r.Intn(3)
		maxCount := []int{0, 1, 2, 3, 5}[r.Intn(5)]
		maxSizeKB := []int{0, 1, 2, 4}[r.Intn(4)]
		memKB := []int{0, 4, 8, 16}[r.Intn(4)]
		timed := r.Intn(40) == 0
		nops := 1 + r.Intn(24)
		if timed {
			nops = 1 + r.Intn(8)
		}
		ops := make([]op, nops)
		id := uint64(1)
		fires := 0
		for x := range ops {
			i := r.Intn(k)
			if r.Intn(8) == 0 {
				ops[x] = op{recv: false, i: i, fail: r.Intn(4) == 0}
				continue
			}
			np := r.Intn(4)
			parts := make([]int, np)
			for y := range parts {
				switch r.Intn(6) {
				case 0:
					parts[y] = 1024 + r.Intn(4096) // possibly oversize
				case 1:
					parts[y] = 0
				default:
					parts[y] = r.Intn(900)
				}
			}
			fired := timed && fires < 2 && r.Intn(3) == 0
			if fired {
				fires++
			}
			ops[x] = op{recv: true, i: i, id: id, parts: parts, fired: fired, fail: r.Intn(5) == 0}
			id++
		}
		if r.Intn(3) == 0 { // shutdown: clear every packer
			for i := 0; i < k; i++ {
				ops = append(ops, op{recv: false, i: i, fail: r.Intn(6) == 0})
			}
		}
		if !runCase(o, k, maxCount, maxSizeKB, memKB, timed, ops) {
			discarded++
		}
	}
	o.Extra["discarded_ambiguous_timing"] = discarded
	if err := o.Flush(); err != nil {
		panic(err)
	}
}
