package main

import (
	"fmt"

	"github.com/zilliztech/milvus-cdc/server/model/meta"

	"verifharness/lib/hx"
)

var rootPool = [][]string{
	{"cdc", "cdc2"}, {"cdc_a", "cdcxa", "other"}, {"c%c", "cxxc"}, {"cdc", "x/cdc", "x/cdc2"}, {"a", "ab", "abc"}, {"cdc", "other"}, {"r_1", "r11", "r%"},
}
var taskPool = []string{"t1", "t10", "t1x", "t_1", "t%", "tx1", "a"}
var collPool = []int64{1, 10, 100, 7, -1, -10} // -1 is how collection id 0 is stored, -10 is model.ReplicateCollectionID
var chanPool = []string{"ch1", "ch10", "ch2"}
var fails = []string{"FNone", "FNone", "FGet", "FTxn", "FDelInfo", "FDelPos", "FCommitBefore", "FCommitAfter"}

func cname(c int64) string { return fmt.Sprintf("c%d", c) }

func info(t string, st int, reason string) *meta.TaskInfo {
	return &meta.TaskInfo{TaskID: t, State: meta.TaskState(st), Reason: reason}
}
func pos(t string, c int64, chans map[string]*pinfo) *meta.TaskCollectionPosition {
	p := &meta.TaskCollectionPosition{TaskID: t, CollectionID: c, CollectionName: cname(c), Positions: map[string]*meta.PositionInfo{},
		OpPositions: map[string]*meta.PositionInfo{}, TargetPositions: map[string]*meta.PositionInfo{}}
	for k, v := range chans {
		p.Positions[k] = v.meta()
	}
	return p
}

func corpus() [][]*label {
	pi := func(t int64, tok int) *pinfo { return &pinfo{time: t, key: "tk", tok: tok} }
	three := func(roots []string) []*label {
		var ls []*label
		for _, r := range roots {
			ls = append(ls, &label{kind: "PutInfo", r: r, info: info("t1", 1, "")},
				&label{kind: "PutPos", r: r, pos: pos("t1", 7, map[string]*pinfo{"ch1": pi(5, 1)})},
				&label{kind: "PutMsg", r: r, key: "task_msg/t1/m1", tok: 1})
		}
		return ls
	}
	return [][]*label{
		// roots that differ only where one has a LIKE wildcard: listing, then deleting under the third root
		append(three([]string{"cdc_a", "cdcxa", "other"}), &label{kind: "GetInfo", r: "cdc_a"}, &label{kind: "GetPos", r: "cdc_a", t: "t1"},
			&label{kind: "GetMsg", r: "cdc_a", key: "task_msg/", pfx: true},
			&label{kind: "DeleteTask", r: "other", t: "t1", fail: "FNone"}, &label{kind: "DelPos", r: "cdcxa", t: "t1"}, &label{kind: "DelInfo", r: "cdc_a", t: "t1"}),
		// roots that are prefixes of each other
		append(three([]string{"cdc", "cdc2"}), &label{kind: "GetInfo", r: "cdc"}, &label{kind: "GetMsg", r: "cdc", key: "task_msg/", pfx: true},
			&label{kind: "DeleteTask", r: "cdc", t: "t1", fail: "FNone"}, &label{kind: "GetMsg", r: "cdc2", key: "task_msg/", pfx: true}),
		// task ids that are prefixes of each other; a checkpoint update of one channel; dropped entries stay
		{&label{kind: "PutInfo", r: "cdc", info: info("t1", 1, "")}, &label{kind: "PutInfo", r: "cdc", info: info("t10", 1, "")},
			&label{kind: "UpdPos", r: "cdc", t: "t1", c: 1, cname: "c1", ch: "ch1", p: pi(5, 1), op: pi(5, 2)},
			&label{kind: "UpdPos", r: "cdc", t: "t10", c: 1, cname: "c1", ch: "ch1", p: pi(6, 3)},
			&label{kind: "UpdPos", r: "cdc", t: "t1", c: 10, cname: "c10", ch: "ch10", p: pi(7, 4), tg: pi(7, 5)},
			&label{kind: "UpdPos", r: "cdc", t: "t1", c: 1, cname: "c1", ch: "ch10", p: pi(8, 6)},
			&label{kind: "GetPos", r: "cdc", t: "t1"}, &label{kind: "DropState", r: "cdc", t: "t1", c: 1},
			&label{kind: "UpdPos", r: "cdc", t: "t1", c: 1, cname: "c1", ch: "ch1", p: pi(9, 7), op: pi(9, 8)},
			&label{kind: "UpdPos", r: "cdc", t: "t1", c: 1, cname: "c1", ch: "ch2", p: pi(9, 9)},
			&label{kind: "DelPos", r: "cdc", t: "t1"}, &label{kind: "GetPos", r: "cdc"}},
		// the reserved negative collection ids next to ordinary ones
		{&label{kind: "PutInfo", r: "cdc", info: info("t1", 1, "")}, &label{kind: "PutPos", r: "cdc", pos: pos("t1", 100, map[string]*pinfo{"ch1": pi(5, 1)})},
			&label{kind: "UpdPos", r: "cdc", t: "t1", c: -10, cname: "c-10", ch: "rpc-ch", p: pi(6, 2)},
			&label{kind: "UpdPos", r: "cdc", t: "t1", c: 0, cname: "c0", ch: "ch1", p: pi(7, 3)},
			&label{kind: "GetPos", r: "cdc", t: "t1", c: -10}, &label{kind: "GetPos", r: "cdc", t: "t1", c: -1},
			&label{kind: "DelPos", r: "cdc", t: "t1", c: -1}, &label{kind: "GetPos", r: "cdc", t: "t1"}, &label{kind: "DelPos", r: "cdc", t: "t1", c: -10}, &label{kind: "GetPos", r: "cdc", t: "t1"}},
		// a late checkpoint update after the collection's drop was recorded: the source, op and target entries stay frozen
		// (the target entry is filed under the downstream channel's key, not under the source channel name)
		{&label{kind: "PutInfo", r: "cdc", info: info("t1", 1, "")},
			&label{kind: "UpdPos", r: "cdc", t: "t1", c: 7, cname: "c7", ch: "ch1", p: pi(5, 1), op: pi(5, 2), tg: &pinfo{time: 5, key: "tgt-ch9", tok: 3}},
			&label{kind: "UpdPos", r: "cdc", t: "t1", c: 7, cname: "c7", ch: "ch2", p: pi(5, 4), tg: &pinfo{time: 5, key: "ch1", tok: 5}},
			&label{kind: "DropState", r: "cdc", t: "t1", c: 7},
			&label{kind: "UpdPos", r: "cdc", t: "t1", c: 7, cname: "c7", ch: "ch1", p: pi(9, 6), op: pi(9, 7), tg: &pinfo{time: 9, key: "tgt-ch9", tok: 8}},
			&label{kind: "UpdPos", r: "cdc", t: "t1", c: 7, cname: "c7", ch: "ch2", p: pi(9, 9), tg: &pinfo{time: 9, key: "ch1", tok: 10}},
			&label{kind: "GetPos", r: "cdc", t: "t1", c: 7}},
		// two consumers (one per downstream channel) save the checkpoints of two shards of one collection at the same time;
		// then a checkpoint is saved while the collection's drop is recorded
		{&label{kind: "PutInfo", r: "cdc", info: info("t1", 1, "")}, &label{kind: "PutPos", r: "cdc", pos: pos("t1", 7, map[string]*pinfo{"ch1": pi(5, 1), "ch2": pi(5, 2)})},
			&label{kind: "Par", r: "cdc", t: "t1", c: 7, a: &label{kind: "UpdPos", r: "cdc", t: "t1", c: 7, cname: "c7", ch: "ch1", p: pi(6, 3)},
				b: &label{kind: "UpdPos", r: "cdc", t: "t1", c: 7, cname: "c7", ch: "ch2", p: pi(6, 4)}},
			&label{kind: "GetPos", r: "cdc", t: "t1", c: 7},
			&label{kind: "Par", r: "cdc", t: "t1", c: 7, a: &label{kind: "UpdPos", r: "cdc", t: "t1", c: 7, cname: "c7", ch: "ch1", p: pi(7, 5)},
				b: &label{kind: "DropState", r: "cdc", t: "t1", c: 7}},
			&label{kind: "GetPos", r: "cdc", t: "t1", c: 7}},
		// deleting a task with a failure at each store call
		{&label{kind: "PutInfo", r: "cdc", info: info("t1", 2, "")}, &label{kind: "PutPos", r: "cdc", pos: pos("t1", 1, map[string]*pinfo{"ch1": pi(5, 1)})},
			&label{kind: "PutPos", r: "cdc", pos: pos("t1", 10, map[string]*pinfo{"ch1": pi(5, 1)})}, &label{kind: "PutInfo", r: "cdc", info: info("t10", 2, "")},
			&label{kind: "PutPos", r: "cdc", pos: pos("t10", 1, map[string]*pinfo{"ch1": pi(5, 1)})},
			&label{kind: "DeleteTask", r: "cdc", t: "t1", fail: "FGet"}, &label{kind: "DeleteTask", r: "cdc", t: "t1", fail: "FTxn"},
			&label{kind: "DeleteTask", r: "cdc", t: "t1", fail: "FDelInfo"}, &label{kind: "DeleteTask", r: "cdc", t: "t1", fail: "FDelPos"},
			&label{kind: "DeleteTask", r: "cdc", t: "t1", fail: "FCommitBefore"}, &label{kind: "DeleteTask", r: "cdc", t: "t1", fail: "FCommitAfter"},
			&label{kind: "DeleteTask", r: "cdc", t: "t1", fail: "FNone"}, &label{kind: "GetPos", r: "cdc"}},
	}
}

func generate(a *hx.Args) []*label {
	r := a.Rng
	roots := rootPool[r.Intn(len(rootPool))]
	nt := 2 + r.Intn(3)
	tasks := make([]string, nt)
	off := r.Intn(len(taskPool))
	for i := range tasks {
		tasks[i] = taskPool[(off+i)%len(taskPool)]
	}
	pi := func() *pinfo {
		if r.Intn(4) == 0 {
			return nil
		}
		return &pinfo{time: int64(1 + r.Intn(1000)), key: []string{"tk", "tk1", "ch1"}[r.Intn(3)], tok: r.Intn(200), dropped: r.Intn(12) == 0}
	}
	must := func() *pinfo {
		p := pi()
		for p == nil {
			p = pi()
		}
		return p
	}
	n := 6 + r.Intn(20)
	var ls []*label
	for i := 0; i < n; i++ {
		root := roots[r.Intn(len(roots))]
		t := tasks[r.Intn(len(tasks))]
		c := collPool[r.Intn(len(collPool))]
		if r.Intn(25) == 0 {
			// concurrent checkpoint operations on one record that exists
			cc := []int64{1, 10, 100, 7}[r.Intn(4)]
			a := &label{kind: "UpdPos", r: root, t: t, c: cc, cname: cname(cc), ch: "ch1", p: must(), op: pi()}
			b := &label{kind: "UpdPos", r: root, t: t, c: cc, cname: cname(cc), ch: "ch2", p: must(), op: pi()}
			a.p.dropped, b.p.dropped = false, false
			if r.Intn(3) == 0 {
				b = &label{kind: "DropState", r: root, t: t, c: cc}
			}
			ls = append(ls, &label{kind: "PutPos", r: root, pos: pos(t, cc, map[string]*pinfo{"ch1": {time: 1, key: "tk", tok: 1}, "ch2": {time: 1, key: "tk", tok: 2}})},
				&label{kind: "Par", r: root, t: t, c: cc, a: a, b: b})
			continue
		}
		switch k := r.Intn(100); {
		case k < 12:
			ls = append(ls, &label{kind: "PutInfo", r: root, info: info(t, r.Intn(3), []string{"", "why"}[r.Intn(2)])})
		case k < 18:
			tt := t
			if r.Intn(3) == 0 {
				tt = ""
			}
			ls = append(ls, &label{kind: "GetInfo", r: root, t: tt})
		case k < 22:
			ls = append(ls, &label{kind: "DelInfo", r: root, t: t})
		case k < 32:
			ch := map[string]*pinfo{}
			for j := 0; j < 1+r.Intn(2); j++ {
				ch[chanPool[r.Intn(len(chanPool))]] = must()
			}
			ls = append(ls, &label{kind: "PutPos", r: root, pos: pos(t, c, ch)})
		case k < 42:
			tt, cc := t, c
			if r.Intn(3) == 0 {
				cc = 0
			}
			if cc == 0 && r.Intn(2) == 0 {
				tt = "" // every caller names the task when it names a collection
			}
			ls = append(ls, &label{kind: "GetPos", r: root, t: tt, c: cc})
		case k < 48:
			cc := c
			if r.Intn(3) == 0 {
				cc = 0
			}
			ls = append(ls, &label{kind: "DelPos", r: root, t: t, c: cc})
		case k < 68:
			ls = append(ls, &label{kind: "UpdPos", r: root, t: t, c: c, cname: cname(c), ch: chanPool[r.Intn(len(chanPool))], p: must(), op: pi(), tg: pi()})
		case k < 73:
			ls = append(ls, &label{kind: "DropState", r: root, t: t, c: c})
		case k < 79:
			var olds []int
			for j := 0; j < r.Intn(3); j++ {
				olds = append(olds, r.Intn(3))
			}
			ls = append(ls, &label{kind: "UpdState", r: root, t: t, newState: r.Intn(3), olds: olds, reason: []string{"", "x"}[r.Intn(2)]})
		case k < 89:
			ls = append(ls, &label{kind: "DeleteTask", r: root, t: t, fail: fails[r.Intn(len(fails))]})
		case k < 94:
			ls = append(ls, &label{kind: "PutMsg", r: root, key: fmt.Sprintf("task_msg/%s/m%d", t, r.Intn(2)), tok: r.Intn(2)})
		case k < 98:
			if r.Intn(2) == 0 {
				ls = append(ls, &label{kind: "GetMsg", r: root, key: "task_msg/", pfx: true})
			} else {
				ls = append(ls, &label{kind: "GetMsg", r: root, key: fmt.Sprintf("task_msg/%s/m%d", t, r.Intn(2))})
			}
		default:
			ls = append(ls, &label{kind: "DelMsg", r: root, key: fmt.Sprintf("task_msg/%s/m%d", t, r.Intn(2))})
		}
	}
	return ls
}
