// h_c12: drives the real server/store layer (both backends) with generated operation sequences over several root paths,
// task ids, collection ids and channel names that are prefixes of each other or contain LIKE pattern characters, dumps the
// whole backend after every operation and writes labels, observations and dumps as Coq cases.
package main

import (
	"context"
	"encoding/json"
	"errors"
	"flag"
	"fmt"
	"sort"
	"strings"
	"sync"
	"time"

	"github.com/milvus-io/milvus-proto/go-api/v2/commonpb"
	clientv3 "go.etcd.io/etcd/client/v3"

	coreapi "github.com/zilliztech/milvus-cdc/core/api"
	"github.com/zilliztech/milvus-cdc/server/api"
	servererror "github.com/zilliztech/milvus-cdc/server/error"
	"github.com/zilliztech/milvus-cdc/server/model/meta"
	"github.com/zilliztech/milvus-cdc/server/store"

	"verifharness/lib/cq"
	"verifharness/lib/efake"
	"verifharness/lib/hx"
	"verifharness/lib/sqlfake"
)

var mode = flag.String("mode", "both", "etcd|mysql|both")

// ---------------------------------------------------------------- labels
type pinfo struct {
	time    int64
	key     string
	tok     int
	dropped bool
}
type label struct {
	kind      string
	r, t      string
	c         int64
	cname, ch string
	p, op, tg *pinfo
	info      *meta.TaskInfo
	pos       *meta.TaskCollectionPosition
	newState  int
	olds      []int
	reason    string
	fail      string
	key       string
	tok       int
	pfx       bool
	a, b      *label // Par: two checkpoint operations on one record, issued by two goroutines
}

func (p *pinfo) meta() *meta.PositionInfo {
	if p == nil {
		return nil
	}
	return &meta.PositionInfo{Time: p.time, DataPair: &commonpb.KeyDataPair{Key: p.key, Data: []byte{byte(p.tok)}}, Dropped: p.dropped}
}

func cqPinfo(p *meta.PositionInfo) string {
	tok := 0
	key := ""
	if p.DataPair != nil {
		key = p.DataPair.Key
		if len(p.DataPair.Data) > 0 {
			tok = int(p.DataPair.Data[0])
		}
	}
	return fmt.Sprintf("{| pi_time := %s; pi_key := %s; pi_tok := %s; pi_dropped := %s |}", cq.N(uint64(p.Time)), cq.Str(key), cq.Ni(tok), cq.Bool(p.Dropped))
}
func cqOptPinfo(p *pinfo) string {
	if p == nil {
		return "None"
	}
	return cq.Some(cqPinfo(p.meta()))
}
func cqChmap(m map[string]*meta.PositionInfo) string {
	ks := make([]string, 0, len(m))
	for k := range m {
		ks = append(ks, k)
	}
	sort.Strings(ks)
	o := make([]string, 0, len(ks))
	for _, k := range ks {
		if m[k] == nil {
			continue
		}
		o = append(o, cq.Pair(cq.Str(k), cqPinfo(m[k])))
	}
	return cq.List(o)
}
func cqPos(p *meta.TaskCollectionPosition) string {
	return fmt.Sprintf("{| pr_task := %s; pr_coll := %s; pr_cname := %s; pr_pos := %s; pr_op := %s; pr_tgt := %s |}",
		cq.Str(p.TaskID), cq.Z(p.CollectionID), cq.Str(p.CollectionName), cqChmap(p.Positions), cqChmap(p.OpPositions), cqChmap(p.TargetPositions))
}
func cqInfo(i *meta.TaskInfo) string {
	return fmt.Sprintf("{| ti_task := %s; ti_state := %s; ti_reason := %s |}", cq.Str(i.TaskID), cq.Ni(int(i.State)), cq.Str(i.Reason))
}

func (l *label) coq() string {
	switch l.kind {
	case "PutInfo":
		return cq.App("LPutInfo", cq.Str(l.r), cqInfo(l.info))
	case "GetInfo":
		return cq.App("LGetInfo", cq.Str(l.r), cq.Str(l.t))
	case "DelInfo":
		return cq.App("LDelInfo", cq.Str(l.r), cq.Str(l.t))
	case "PutPos":
		return cq.App("LPutPos", cq.Str(l.r), cqPos(l.pos))
	case "GetPos":
		return cq.App("LGetPos", cq.Str(l.r), cq.Str(l.t), cq.Z(l.c))
	case "DelPos":
		return cq.App("LDelPos", cq.Str(l.r), cq.Str(l.t), cq.Z(l.c))
	case "UpdPos":
		return cq.App("LUpdPos", cq.Str(l.r), cq.Str(l.t), cq.Z(l.c), cq.Str(l.cname), cq.Str(l.ch), cqOptPinfo(l.p), cqOptPinfo(l.op), cqOptPinfo(l.tg))
	case "DropState":
		return cq.App("LDropState", cq.Str(l.r), cq.Str(l.t), cq.Z(l.c))
	case "UpdState":
		return cq.App("LUpdState", cq.Str(l.r), cq.Str(l.t), cq.Ni(l.newState), cq.MapList(l.olds, cq.Ni), cq.Str(l.reason))
	case "DeleteTask":
		return cq.App("LDeleteTask", cq.Str(l.r), cq.Str(l.t), l.fail)
	case "PutMsg":
		return cq.App("LPutMsg", cq.Str(l.r), cq.Str(l.key), cq.Ni(l.tok))
	case "GetMsg":
		return cq.App("LGetMsg", cq.Str(l.r), cq.Str(l.key), cq.Bool(l.pfx))
	case "DelMsg":
		return cq.App("LDelMsg", cq.Str(l.r), cq.Str(l.key))
	case "Par":
		return cq.App("LPar", "("+l.a.coq()+")", "("+l.b.coq()+")")
	}
	panic(l.kind)
}

// rendezvous proxy: the record read (Get) of each of the two concurrent operations returns only when the other one has
// read too, or after a grace period (an implementation that serialises the two operations never gets both reads in)
type rvPos struct {
	api.MetaStore[*meta.TaskCollectionPosition]
	mu   sync.Mutex
	gets int
	both chan struct{}
}

func (p *rvPos) Get(ctx context.Context, m *meta.TaskCollectionPosition, txn any) ([]*meta.TaskCollectionPosition, error) {
	res, err := p.MetaStore.Get(ctx, m, txn)
	p.mu.Lock()
	p.gets++
	if p.gets == 2 {
		close(p.both)
	}
	p.mu.Unlock()
	select {
	case <-p.both:
	case <-time.After(40 * time.Millisecond):
	}
	return res, err
}

// ---------------------------------------------------------------- failing proxy around a factory (DeleteTask)
var errInjected = errors.New("injected failure")

type proxyFactory struct {
	api.MetaStoreFactory
	fail string
}
type proxyInfo struct {
	api.MetaStore[*meta.TaskInfo]
	fail string
}
type proxyPos struct {
	api.MetaStore[*meta.TaskCollectionPosition]
	fail string
}

func (p *proxyInfo) Get(ctx context.Context, m *meta.TaskInfo, txn any) ([]*meta.TaskInfo, error) {
	if p.fail == "FGet" {
		return nil, errInjected
	}
	return p.MetaStore.Get(ctx, m, txn)
}
func (p *proxyInfo) Delete(ctx context.Context, m *meta.TaskInfo, txn any) error {
	if p.fail == "FDelInfo" {
		return errInjected
	}
	return p.MetaStore.Delete(ctx, m, txn)
}
func (p *proxyPos) Delete(ctx context.Context, m *meta.TaskCollectionPosition, txn any) error {
	if p.fail == "FDelPos" {
		return errInjected
	}
	return p.MetaStore.Delete(ctx, m, txn)
}
func (p *proxyFactory) GetTaskInfoMetaStore(ctx context.Context) api.MetaStore[*meta.TaskInfo] {
	return &proxyInfo{p.MetaStoreFactory.GetTaskInfoMetaStore(ctx), p.fail}
}
func (p *proxyFactory) GetTaskCollectionPositionMetaStore(ctx context.Context) api.MetaStore[*meta.TaskCollectionPosition] {
	return &proxyPos{p.MetaStoreFactory.GetTaskCollectionPositionMetaStore(ctx), p.fail}
}
func (p *proxyFactory) Txn(ctx context.Context) (any, func(err error) error, error) {
	if p.fail == "FTxn" {
		return nil, nil, errInjected
	}
	t, commit, err := p.MetaStoreFactory.Txn(ctx)
	if err != nil {
		return t, commit, err
	}
	return t, func(e error) error {
		if e == nil && p.fail == "FCommitBefore" {
			_ = commit(errInjected)
			return errInjected
		}
		r := commit(e)
		if e == nil && r == nil && p.fail == "FCommitAfter" {
			return errInjected
		}
		return r
	}, nil
}

// ---------------------------------------------------------------- backends
type backend interface {
	factory(root string) api.MetaStoreFactory
	reset()
	dump() []string // Coq (key, value) pairs in key order
}

func valueOf(key string, raw []byte, cols map[string]any) string {
	switch {
	case strings.Contains(key, "/task_info/"):
		var i meta.TaskInfo
		if err := json.Unmarshal(raw, &i); err != nil {
			return "(VM 999999%N)"
		}
		return cq.App("VI", cqInfo(&i))
	case strings.Contains(key, "/task_position/"):
		var p meta.TaskCollectionPosition
		if cols != nil {
			p.TaskID = fmt.Sprint(cols["task_id"])
			fmt.Sscan(fmt.Sprint(cols["collection_id"]), &p.CollectionID)
			p.CollectionName = fmt.Sprint(cols["collection_name"])
			_ = json.Unmarshal([]byte(fmt.Sprint(cols["task_position_value"])), &p.Positions)
			_ = json.Unmarshal([]byte(fmt.Sprint(cols["op_position_value"])), &p.OpPositions)
			_ = json.Unmarshal([]byte(fmt.Sprint(cols["target_position_value"])), &p.TargetPositions)
		} else if err := json.Unmarshal(raw, &p); err != nil {
			return "(VM 999999%N)"
		}
		return cq.App("VP", cqPos(&p))
	default:
		var m coreapi.MetaMsg
		if err := json.Unmarshal(raw, &m); err != nil {
			return "(VM 999999%N)"
		}
		return cq.App("VM", cq.Ni(int(m.Type)))
	}
}

type etcdBackend struct {
	et  *efake.Etcd
	fac map[string]api.MetaStoreFactory
}

func (b *etcdBackend) factory(root string) api.MetaStoreFactory {
	if f, ok := b.fac[root]; ok {
		return f
	}
	f, err := store.NewEtcdMetaStoreWithAddress(context.Background(), []string{b.et.Endpoint}, root)
	if err != nil {
		panic(err)
	}
	b.fac[root] = f
	return f
}
func (b *etcdBackend) reset() {
	if _, err := b.et.Cli.Delete(context.Background(), "", clientv3.WithPrefix()); err != nil {
		panic(err)
	}
}
func (b *etcdBackend) dump() []string {
	resp, err := b.et.Cli.Get(context.Background(), "", clientv3.WithPrefix())
	if err != nil {
		panic(err)
	}
	var o []string
	for _, kv := range resp.Kvs {
		o = append(o, cq.Pair(cq.Str(string(kv.Key)), valueOf(string(kv.Key), kv.Value, nil)))
	}
	return o
}

type mysqlBackend struct {
	eng *sqlfake.Engine
	fac map[string]api.MetaStoreFactory
	seq int
}

func (b *mysqlBackend) factory(root string) api.MetaStoreFactory {
	if f, ok := b.fac[root]; ok {
		return f
	}
	db := sqlfake.Open(fmt.Sprintf("e%d", b.seq), b.eng)
	f, err := store.NewVerifMySQLMetaStore(context.Background(), db, root)
	if err != nil {
		panic(err)
	}
	b.fac[root] = f
	return f
}
func (b *mysqlBackend) reset() {
	b.seq++
	b.eng = sqlfake.NewEngine()
	b.fac = map[string]api.MetaStoreFactory{}
}
func (b *mysqlBackend) dump() []string {
	var o []string
	for _, r := range b.eng.Dump("task_info") {
		k := fmt.Sprint(r["task_info_key"])
		o = append(o, cq.Pair(cq.Str(k), valueOf(k, []byte(fmt.Sprint(r["task_info_value"])), nil)))
	}
	for _, r := range b.eng.Dump("task_position") {
		k := fmt.Sprint(r["task_position_key"])
		o = append(o, cq.Pair(cq.Str(k), valueOf(k, nil, r)))
	}
	for _, r := range b.eng.Dump("task_msg") {
		k := fmt.Sprint(r["task_msg_key"])
		o = append(o, cq.Pair(cq.Str(k), valueOf(" ", []byte(fmt.Sprint(r["task_msg_value"])), nil)))
	}
	return o
}

// ---------------------------------------------------------------- one operation against the real code
func resOf(err error) string {
	if err == nil {
		return "(ORes ROk)"
	}
	var nf *servererror.NotFoundError
	if errors.As(err, &nf) {
		return "(ORes RNotFound)"
	}
	return "(ORes RErr)"
}

func apply(b backend, l *label) string {
	ctx := context.Background()
	f := b.factory(l.r)
	switch l.kind {
	case "PutInfo":
		if err := f.GetTaskInfoMetaStore(ctx).Put(ctx, l.info, nil); err != nil {
			panic(err)
		}
		return "ONone"
	case "GetInfo":
		is, err := f.GetTaskInfoMetaStore(ctx).Get(ctx, &meta.TaskInfo{TaskID: l.t}, nil)
		if err != nil {
			panic(err)
		}
		return cq.App("OInfos", cq.MapList(is, cqInfo))
	case "DelInfo":
		return resOf(f.GetTaskInfoMetaStore(ctx).Delete(ctx, &meta.TaskInfo{TaskID: l.t}, nil))
	case "PutPos":
		if err := f.GetTaskCollectionPositionMetaStore(ctx).Put(ctx, l.pos, nil); err != nil {
			panic(err)
		}
		return "ONone"
	case "GetPos":
		ps, err := f.GetTaskCollectionPositionMetaStore(ctx).Get(ctx, &meta.TaskCollectionPosition{TaskID: l.t, CollectionID: l.c}, nil)
		if err != nil {
			panic(err)
		}
		return cq.App("OPoss", cq.MapList(ps, cqPos))
	case "DelPos":
		return resOf(f.GetTaskCollectionPositionMetaStore(ctx).Delete(ctx, &meta.TaskCollectionPosition{TaskID: l.t, CollectionID: l.c}, nil))
	case "UpdPos":
		if err := store.UpdateTaskCollectionPosition(f.GetTaskCollectionPositionMetaStore(ctx), l.t, l.c, l.cname, l.ch, l.p.meta(), l.op.meta(), l.tg.meta()); err != nil {
			panic(err)
		}
		return "ONone"
	case "DropState":
		return resOf(store.UpdateDropStateTaskCollectionPosition(f.GetTaskCollectionPositionMetaStore(ctx), l.t, l.c))
	case "Par":
		rv := &rvPos{MetaStore: f.GetTaskCollectionPositionMetaStore(ctx), both: make(chan struct{})}
		var wg sync.WaitGroup
		for _, x := range []*label{l.a, l.b} {
			wg.Add(1)
			go func(x *label) {
				defer wg.Done()
				var err error
				if x.kind == "UpdPos" {
					err = store.UpdateTaskCollectionPosition(rv, x.t, x.c, x.cname, x.ch, x.p.meta(), x.op.meta(), x.tg.meta())
				} else {
					err = store.UpdateDropStateTaskCollectionPosition(rv, x.t, x.c)
				}
				if err != nil {
					panic(err)
				}
			}(x)
		}
		wg.Wait()
		return "ONone"
	case "UpdState":
		olds := make([]meta.TaskState, len(l.olds))
		for i, o := range l.olds {
			olds[i] = meta.TaskState(o)
		}
		err := store.UpdateTaskState(f.GetTaskInfoMetaStore(ctx), l.t, meta.TaskState(l.newState), olds, l.reason)
		if err != nil {
			return "(ORes RErr)"
		}
		return "(ORes ROk)"
	case "DeleteTask":
		_, err := store.DeleteTask(&proxyFactory{f, l.fail}, l.t)
		return resOf(err)
	case "PutMsg":
		if err := f.GetReplicateStore(ctx).Put(ctx, l.key, coreapi.MetaMsg{Type: coreapi.MetaMsgType(l.tok), Data: map[string]interface{}{}}); err != nil {
			panic(err)
		}
		return "ONone"
	case "GetMsg":
		ms, err := f.GetReplicateStore(ctx).Get(ctx, l.key, l.pfx)
		if err != nil {
			panic(err)
		}
		return cq.App("OMsgs", cq.MapList(ms, func(m coreapi.MetaMsg) string { return cq.Ni(int(m.Type)) }))
	case "DelMsg":
		if err := f.GetReplicateStore(ctx).Remove(ctx, l.key); err != nil {
			panic(err)
		}
		return "ONone"
	}
	panic(l.kind)
}

func runCase(b backend, out *cq.Out, ls []*label, kind string) {
	b.reset()
	var lab, obs []string
	for _, l := range ls {
		o := apply(b, l)
		lab = append(lab, l.coq())
		obs = append(obs, cq.Pair(o, cq.List(b.dump())))
		out.Count("op=" + l.kind)
		if l.kind == "DeleteTask" {
			out.Count("fail=" + l.fail)
		}
	}
	bk := "Etcd"
	if *mode == "mysql" {
		bk = "MySQL"
	}
	out.Add(fmt.Sprintf("{| k_backend := %s; k_labels := %s; k_obs := %s |}", bk, cq.List(lab), cq.List(obs)))
	out.Count("kind=" + kind)
	roots := map[string]bool{}
	for _, l := range ls {
		roots[l.r] = true
	}
	if len(roots) > 1 {
		out.NonTrivial(strings.Join(lab, ";"))
	}
}

func main() {
	a := hx.Parse()
	out := cq.NewOut(a.Out, "From Verif Require Import C12.Model C12.Check.", "case", 100)
	modes := []string{*mode}
	if *mode == "both" {
		modes = []string{"etcd", "mysql"}
	}
	for _, m := range modes {
		*mode = m
		var b backend
		var stop func()
		if m == "etcd" {
			et := efake.Start()
			stop = et.Stop
			b = &etcdBackend{et: et, fac: map[string]api.MetaStoreFactory{}}
		} else {
			b = &mysqlBackend{}
		}
		for _, c := range corpus() {
			runCase(b, out, c, "corpus")
		}
		for i := 0; i < a.N/len(modes); i++ {
			runCase(b, out, generate(a), "random")
		}
		out.Count("backend=" + m)
		if stop != nil {
			stop()
		}
	}
	if err := out.Flush(); err != nil {
		panic(err)
	}
}
