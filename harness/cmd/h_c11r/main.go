// h_c11r: API calls of the real MetaCDC cut by a crash of the process after n writes of the task record, and restarts with the
// real ReloadTask, over lib/sfake (the fakes end every goroutine of a dead incarnation at its next call).  After every label:
// the persisted state of the task, its in-memory state together with what get reports, and whether the process is dead.
package main

import (
	"fmt"
	"os"

	"github.com/zilliztech/milvus-cdc/core/api"
	"github.com/zilliztech/milvus-cdc/core/config"
	"github.com/zilliztech/milvus-cdc/server"
	"github.com/zilliztech/milvus-cdc/server/model"
	"github.com/zilliztech/milvus-cdc/server/model/meta"
	"github.com/zilliztech/milvus-cdc/server/model/request"
	"github.com/zilliztech/milvus-cdc/server/msgpacker"

	"verifharness/lib/cq"
	"verifharness/lib/hx"
	"verifharness/lib/sfake"
)

const target = "127.0.0.1:19092"

type lab struct {
	kind string // create pause resume delete restart
	cut  int    // -1: no crash point
}

type sys struct {
	w    *sfake.World
	cfg  *server.CDCServerConfig
	cdc  *server.MetaCDC
	cat  *sfake.MetaOp
	task string
	dead bool
}

func (s *sys) epoch() int {
	s.w.Mu.Lock()
	defer s.w.Mu.Unlock()
	return s.w.Epoch
}

func (s *sys) entity() {
	for _, e := range s.cdc.VerifSnapshot().Entities {
		if e.Key == target {
			return
		}
	}
	s.cdc.VerifPutEntity(target, sfake.NewCM(s.w), nil, s.cat, &sfake.Writer{DefaultWriter: &api.DefaultWriter{}, W: s.w, Fence: true, Epoch: s.epoch()}, sfake.NewDisp(s.w))
}

func (s *sys) boot() {
	s.cdc = server.NewVerifMetaCDC(s.cfg, &sfake.Factory{W: s.w, Epoch: s.epoch()}, nil)
	s.dead = false
}

func stateCode(st meta.TaskState, ok bool) int {
	if !ok {
		return 0
	}
	switch st {
	case meta.TaskStateInitial:
		return 1
	case meta.TaskStateRunning:
		return 2
	case meta.TaskStatePaused:
		return 3
	}
	return 8
}

func (s *sys) memState() (meta.TaskState, bool) {
	for _, t := range s.cdc.VerifSnapshot().Tasks {
		if t.TaskID == s.task {
			return t.State, true
		}
	}
	return 0, false
}

// run an API call in its own goroutine (a crash point ends it inside a fake); tells whether the process died
func (s *sys) call(cut int, applies bool, f func()) {
	crashes := s.w.CrashCount()
	if cut >= 0 && applies {
		s.w.CrashAfter(cut)
	}
	if s.w.CrashCount() > crashes {
		s.dead = true
		return
	}
	done := make(chan struct{})
	go func() {
		defer close(done)
		f()
	}()
	<-done
	s.w.ClearCrash()
	if s.w.CrashCount() > crashes {
		s.dead = true
	}
}

func (s *sys) apply(l lab) {
	if l.kind == "restart" {
		s.w.CrashAfter(0)
		s.boot()
		if s.w.TaskInfos()[s.task] != nil {
			s.entity() // ReloadTask starts the task, which would build the entity of its target
		}
		s.cdc.ReloadTask()
		return
	}
	if s.dead {
		return
	}
	st, ok := s.memState()
	switch l.kind {
	case "create":
		if !ok {
			s.entity()
		}
		s.call(l.cut, !ok, func() {
			_, _ = s.cdc.Create(&request.CreateRequest{TaskID: s.task, KafkaConnectParam: model.KafkaConnectParam{Address: target, Topic: "t"},
				DBCollections: map[string][]model.CollectionInfo{"db1": {{Name: "*"}}}})
		})
	case "pause":
		s.call(l.cut, ok && st == meta.TaskStateRunning, func() { _, _ = s.cdc.Pause(&request.PauseRequest{TaskID: s.task}) })
	case "resume":
		if ok && st == meta.TaskStatePaused {
			s.entity()
		}
		s.call(l.cut, ok && st == meta.TaskStatePaused, func() { _, _ = s.cdc.Resume(&request.ResumeRequest{TaskID: s.task}) })
	case "resumefail":
		// the store refuses the update of the task record: the start is rolled back, the task stays paused
		if ok && st == meta.TaskStatePaused {
			s.entity()
			s.w.FailNext("task.put", 1)
			s.call(-1, false, func() { _, _ = s.cdc.Resume(&request.ResumeRequest{TaskID: s.task}) })
			s.w.ClearFaults()
		}
	case "delete":
		s.call(-1, false, func() { _, _ = s.cdc.Delete(&request.DeleteRequest{TaskID: s.task}) })
	}
}

func (s *sys) hasEntity() bool {
	for _, e := range s.cdc.VerifSnapshot().Entities {
		if e.Key == target {
			return true
		}
	}
	return false
}

func (s *sys) observe() string {
	ti := s.w.TaskInfos()[s.task]
	stored := 0
	if ti != nil {
		stored = stateCode(ti.State, true)
	}
	mem := 0
	if !s.dead {
		st, ok := s.memState()
		mem = stateCode(st, ok)
		// what get reports
		r, err := s.cdc.Get(&request.GetRequest{TaskID: s.task})
		got := 0
		if err == nil && r != nil {
			got = map[string]int{meta.TaskStateInitial.String(): 1, meta.TaskStateRunning.String(): 2, meta.TaskStatePaused.String(): 3}[r.Task.State]
		}
		if got != mem {
			mem = 9
		}
	}
	ent := false
	if !s.dead {
		ent = s.hasEntity()
	}
	return fmt.Sprintf("(%s, %s, %s, %s)", cq.Nat(stored), cq.Nat(mem), cq.Bool(s.dead), cq.Bool(ent))
}

func labCoq(l lab) string {
	cut := "None"
	if l.cut >= 0 {
		cut = fmt.Sprintf("(Some %d)", l.cut)
	}
	switch l.kind {
	case "create":
		return "(LCreate " + cut + ")"
	case "pause":
		return "(LPause " + cut + ")"
	case "resume":
		return "(LResume " + cut + ")"
	case "resumefail":
		return "LResumeFail"
	case "delete":
		return "LDelete"
	}
	return "LRestart"
}

var caseNo int

func runCase(out *cq.Out, ls []lab, tag string) {
	caseNo++
	w := sfake.NewWorld()
	w.ExitDead = true
	w.CrashKinds = map[string]bool{"task.put": true}
	s := &sys{w: w, task: fmt.Sprintf("k%dt1", caseNo), cat: &sfake.MetaOp{DefaultMetaOp: &api.DefaultMetaOp{}, W: w},
		cfg: &server.CDCServerConfig{MaxTaskNum: 100, Retry: config.RetrySettings{RetryTimes: 1, InitBackOff: 1, MaxBackOff: 1},
			SourceConfig: server.MilvusSourceConfig{ReplicateChan: "rpc-chan"}, Packer: msgpacker.PackerConfig{MaxCount: 2, TimerInterval: 3600000}}}
	s.cat.Colls = []sfake.Coll{{ID: 1, DB: "db1", DBID: 2, Name: "c1", PChs: []string{"src-dml_0"}, VChs: []string{"src-dml_0_1v0"}, CTime: 50}}
	s.boot()
	var lt, ot []string
	cuts := 0
	for _, l := range ls {
		s.apply(l)
		lt = append(lt, labCoq(l))
		ot = append(ot, s.observe())
		out.Count("label=" + l.kind)
		if l.cut >= 0 {
			cuts++
			out.Count(fmt.Sprintf("%s cut at %d", l.kind, l.cut))
		}
	}
	out.Add(fmt.Sprintf("{| lc_ops := %s; lc_obs := %s |}", cq.List(lt), cq.List(ot)))
	if cuts > 0 && len(ls) >= 3 {
		out.NonTrivial(fmt.Sprint(lt))
	}
	out.Sample(map[string]interface{}{"tag": tag, "labels": lt, "last_observation": ot[len(ot)-1]})
	w.CrashAfter(0)
}

func main() {
	a := hx.Parse()
	config.InitCommonConfig(func(c *config.CommonConfig) {
		c.Retry = config.RetrySettings{RetryTimes: 1, InitBackOff: 1, MaxBackOff: 1}
	})
	out := cq.NewOut(a.Out, "From Verif Require Import C11.LCheck.", "lcase", 200)
	r := a.Rng
	runCase(out, []lab{{"create", 1}, {"restart", -1}, {"pause", -1}, {"resume", -1}}, "corpus: crash between the two writes of a create, restart")
	runCase(out, []lab{{"create", -1}, {"pause", 1}, {"restart", -1}, {"pause", -1}, {"resume", 1}, {"restart", -1}, {"delete", -1}}, "corpus: crashes right after the write of a pause and of a resume")
	runCase(out, []lab{{"create", -1}, {"pause", -1}, {"resumefail", -1}, {"delete", -1}, {"create", -1}}, "corpus: a refused resume leaves the idle entity, the delete collects it")
	kinds := []string{"create", "pause", "resume", "resumefail", "delete", "restart"}
	for i := 0; i < a.N; i++ {
		n := 3 + r.Intn(8)
		ls := []lab{{"create", -1}}
		if r.Intn(3) == 0 {
			ls[0].cut = r.Intn(3)
		}
		for k := 1; k < n; k++ {
			l := lab{kind: kinds[r.Intn(len(kinds))], cut: -1}
			if l.kind != "delete" && l.kind != "restart" && l.kind != "resumefail" && r.Intn(3) == 0 {
				l.cut = r.Intn(3)
			}
			if l.kind == "delete" && r.Intn(2) == 0 {
				l.kind = "restart"
			}
			ls = append(ls, l)
		}
		runCase(out, ls, "generated")
	}
	if err := out.Flush(); err != nil {
		fmt.Fprintln(os.Stderr, err)
		os.Exit(1)
	}
}
