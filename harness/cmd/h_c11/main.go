// h_c11: API histories (create / pause / resume / delete / get / restart) against the real MetaCDC over an
// in-memory store with a store failure injected at a chosen call, and after every call a snapshot of:
// stored state, in-memory state, per-target entity (reference count, quit table), per-task active readers
// (collections being read, rpc-channel reader registrations) and the per-state task gauges.
// Plus a probe of "no busy background work": CPU time of the process while closed barriers sit idle.
package main

import (
	"errors"
	"fmt"
	"os"
	"os/exec"
	"sort"
	"strings"
	"syscall"
	"time"

	dto "github.com/prometheus/client_model/go"
	"github.com/prometheus/client_golang/prometheus"

	"github.com/zilliztech/milvus-cdc/core/api"
	"github.com/zilliztech/milvus-cdc/core/config"
	"github.com/zilliztech/milvus-cdc/core/reader"
	"github.com/zilliztech/milvus-cdc/server"
	servererror "github.com/zilliztech/milvus-cdc/server/error"
	"github.com/zilliztech/milvus-cdc/server/metrics"
	"github.com/zilliztech/milvus-cdc/server/model"
	"github.com/zilliztech/milvus-cdc/server/model/meta"
	"github.com/zilliztech/milvus-cdc/server/model/request"
	"github.com/zilliztech/milvus-cdc/server/msgpacker"

	"verifharness/lib/cq"
	"verifharness/lib/hx"
	"verifharness/lib/sfake"
)

var targets = []string{"127.0.0.1:19092", "127.0.0.1:19093"}

type oper struct {
	kind   string // create pause resume delete get restart
	k      int    // task number
	target string
	aoff   bool
	fk     string // fault kind ("" none): task.get task.put pos.get pos.put txn.commit
	fn     int
}

type sys struct {
	w      *sfake.World
	cfg    *server.CDCServerConfig
	cdc    *server.MetaCDC
	prefix string
	offset int // log offset of the last restart
	cat    *sfake.MetaOp
	g0     [3]float64 // the task-number gauges when the case (or its last restart) began
}

func (s *sys) id(k int) string { return fmt.Sprintf("%st%d", s.prefix, k) }

func (s *sys) boot() {
	s.w.Mu.Lock()
	s.w.Epoch++
	ep := s.w.Epoch
	s.w.Mu.Unlock()
	s.cdc = server.NewVerifMetaCDC(s.cfg, &sfake.Factory{W: s.w, Epoch: ep}, nil)
	s.offset = s.w.LogLen()
	s.entities()
}

func (s *sys) entities() {
	have := map[string]bool{}
	for _, e := range s.cdc.VerifSnapshot().Entities {
		have[e.Key] = true
	}
	for _, t := range targets {
		if !have[t] {
			s.cdc.VerifPutEntity(t, sfake.NewCM(s.w), nil, s.cat, &sfake.Writer{DefaultWriter: &api.DefaultWriter{}, W: s.w}, sfake.NewDisp(s.w))
		}
	}
}

func code(err error) int {
	if err == nil {
		return 0
	}
	if errors.Is(err, servererror.ClientErr) {
		return 1
	}
	return 2
}

func gauges() (float64, float64, float64) {
	ch := make(chan prometheus.Metric, 8)
	metrics.TaskNumVec.Collect(ch)
	close(ch)
	var v [3]float64
	i := 0
	for m := range ch {
		var d dto.Metric
		_ = m.Write(&d)
		v[i] = d.GetGauge().GetValue()
		i++
	}
	return v[0], v[1], v[2]
}

func (s *sys) apply(o oper) int {
	if o.kind != "restart" {
		s.entities()
	}
	if o.fk != "" && o.kind != "restart" {
		s.w.FailNext(o.fk, o.fn)
	}
	defer s.w.ClearFaults()
	switch o.kind {
	case "create":
		_, err := s.cdc.Create(&request.CreateRequest{TaskID: s.id(o.k), KafkaConnectParam: model.KafkaConnectParam{Address: o.target, Topic: "t"},
			DBCollections: map[string][]model.CollectionInfo{"db1": {{Name: fmt.Sprintf("c%d", o.k)}}}, DisableAutoStart: o.aoff})
		return code(err)
	case "pause":
		_, err := s.cdc.Pause(&request.PauseRequest{TaskID: s.id(o.k)})
		return code(err)
	case "resume":
		_, err := s.cdc.Resume(&request.ResumeRequest{TaskID: s.id(o.k)})
		return code(err)
	case "delete":
		_, err := s.cdc.Delete(&request.DeleteRequest{TaskID: s.id(o.k)})
		return code(err)
	case "get":
		_, err := s.cdc.Get(&request.GetRequest{TaskID: s.id(o.k)})
		return code(err)
	default:
		// a process start: the task-number metric starts empty
		metrics.VerifResetTaskNum()
		s.g0 = [3]float64{}
		s.boot()
		if o.fk != "" {
			s.w.FailNext(o.fk, o.fn)
		}
		s.cdc.ReloadTask()
		return 0
	}
}

func viewCoq(st meta.TaskState, reason string) string {
	n := map[meta.TaskState]string{meta.TaskStateInitial: "SInitial", meta.TaskStateRunning: "SRunning", meta.TaskStatePaused: "SPaused"}[st]
	return fmt.Sprintf("(Some {| v_state := %s; v_reason := %s |})", n, cq.Bool(reason != ""))
}

func (s *sys) observe(c int, ntasks int, restarted bool) string {
	g0 := s.g0
	snap := s.cdc.VerifSnapshot()
	memv := map[string]server.VerifTask{}
	for _, t := range snap.Tasks {
		memv[t.TaskID] = t
	}
	stov := s.w.TaskInfos()
	evs := s.w.LogFrom(s.offset)
	var ts []string
	for k := 1; k <= ntasks; k++ {
		id := s.id(k)
		m, st := "None", "None"
		if t, ok := memv[id]; ok {
			m = viewCoq(t.State, t.Reason)
		}
		if t, ok := stov[id]; ok {
			st = viewCoq(t.State, t.Reason)
		}
		started, reg := 0, 0
		for _, e := range evs {
			switch e.Kind {
			case "start":
				if e.Key == fmt.Sprint(100+k) {
					started++
				}
			case "stop":
				if e.Key == fmt.Sprint(100+k) {
					started--
				}
			case "register":
				if e.Key == "rpc-chan_"+id+"v0" {
					reg++
				}
			case "deregister":
				if e.Key == "rpc-chan_"+id+"v0" {
					reg--
				}
			}
		}
		ts = append(ts, fmt.Sprintf("{| o_id := %s; o_mem := %s; o_sto := %s; o_started := %s; o_reg := %s |}", cq.Str(fmt.Sprintf("t%d", k)), m, st, cq.Z(int64(started)), cq.Z(int64(reg))))
	}
	var es []string
	for _, e := range snap.Entities {
		var q []string
		for _, x := range e.QuitTasks {
			q = append(q, strings.TrimPrefix(x, s.prefix))
		}
		sort.Strings(q)
		es = append(es, cq.Pair(cq.Str(e.Key), cq.Pair(cq.Z(int64(e.RefCnt)), cq.Strs(q))))
	}
	a, b, cc := gauges()
	g := fmt.Sprintf("(Some (%s, %s, %s))", cq.Z(int64(a-g0[0])), cq.Z(int64(b-g0[1])), cq.Z(int64(cc-g0[2])))
	return fmt.Sprintf("{| o_code := %s; o_tasks := %s; o_ents := %s; o_gauges := %s |}", cq.Ni(c), cq.List(ts), cq.List(es), g)
}

func faultCoq(o oper) string {
	if o.fk == "" {
		return "None"
	}
	k := map[string]string{"task.get": "KTaskGet", "task.put": "KTaskPut", "pos.get": "KPosGet", "pos.put": "KPosPut", "txn.commit": "KCommit"}[o.fk]
	return fmt.Sprintf("(Some (%s, %d%%nat))", k, o.fn)
}

func opCoq(o oper) string {
	id := cq.Str(fmt.Sprintf("t%d", o.k))
	switch o.kind {
	case "create":
		return fmt.Sprintf("(Create %s %s %s %s)", id, cq.Str(o.target), cq.Bool(o.aoff), faultCoq(o))
	case "pause":
		return fmt.Sprintf("(Pause %s %s)", id, faultCoq(o))
	case "resume":
		return fmt.Sprintf("(Resume %s %s)", id, faultCoq(o))
	case "delete":
		return fmt.Sprintf("(Delete %s %s)", id, faultCoq(o))
	case "get":
		return fmt.Sprintf("(Get %s %s)", id, faultCoq(o))
	}
	return fmt.Sprintf("(Restart %s)", faultCoq(o))
}

var caseNo int

func runCase(out *cq.Out, ops []oper, tag string) {
	caseNo++
	cat := &sfake.MetaOp{DefaultMetaOp: &api.DefaultMetaOp{}}
	for k := 1; k <= 8; k++ {
		cat.Colls = append(cat.Colls, sfake.Coll{ID: int64(100 + k), DB: "db1", DBID: 2, Name: fmt.Sprintf("c%d", k),
			PChs: []string{"src-dml_0"}, VChs: []string{fmt.Sprintf("src-dml_0_%dv0", 100+k)}, CTime: 50})
	}
	s := &sys{w: sfake.NewWorld(), prefix: fmt.Sprintf("k%d", caseNo), cat: cat, cfg: &server.CDCServerConfig{MaxTaskNum: 100,
		Retry:        config.RetrySettings{RetryTimes: 1, InitBackOff: 1, MaxBackOff: 1},
		SourceConfig: server.MilvusSourceConfig{ReplicateChan: "rpc-chan"},
		Packer:       msgpacker.PackerConfig{MaxCount: 2, TimerInterval: 3600000}}}
	a, b, c := gauges()
	s.g0 = [3]float64{a, b, c}
	s.boot()
	ntasks := 0
	for _, o := range ops {
		if o.k > ntasks {
			ntasks = o.k
		}
	}
	var opT, obT []string
	restarted := false
	faults, fails := 0, 0
	for _, o := range ops {
		cd := s.apply(o)
		if o.kind == "restart" {
			restarted = true
		}
		if o.fk != "" {
			faults++
		}
		if cd == 2 {
			fails++
		}
		out.Count(fmt.Sprintf("%s=%d", o.kind, cd))
		if o.fk != "" {
			out.Count("fault/" + o.kind + "/" + o.fk)
		}
		opT = append(opT, opCoq(o))
		obT = append(obT, s.observe(cd, ntasks, restarted))
	}
	out.Add(fmt.Sprintf("(KHist {| c_ops := %s; c_obs := %s |})", cq.List(opT), cq.List(obT)))
	if len(ops) >= 4 && (faults > 0 || restarted) {
		out.NonTrivial(fmt.Sprint(ops))
	}
	out.Sample(map[string]interface{}{"tag": tag, "ops": opT, "last_observation": obT[len(obT)-1]})
}

func cpuMs() int64 {
	var ru syscall.Rusage
	_ = syscall.Getrusage(syscall.RUSAGE_SELF, &ru)
	return (ru.Utime.Sec+ru.Stime.Sec)*1000 + int64(ru.Utime.Usec+ru.Stime.Usec)/1000
}

func probe() {
	const n = 3
	var bs []*reader.Barrier
	for i := 0; i < n; i++ {
		bs = append(bs, reader.NewBarrier(2, func(uint64, *reader.Barrier) {}, nil))
	}
	time.Sleep(200 * time.Millisecond)
	for _, b := range bs {
		close(b.CloseChan)
	}
	t0 := cpuMs()
	time.Sleep(400 * time.Millisecond)
	fmt.Printf("PROBE %d %d\n", n, cpuMs()-t0)
}

func main() {
	for _, x := range os.Args {
		if x == "-probe" {
			probe()
			return
		}
	}
	a := hx.Parse()
	config.InitCommonConfig(func(c *config.CommonConfig) {
		c.Retry = config.RetrySettings{RetryTimes: 1, InitBackOff: 1, MaxBackOff: 1}
	})
	out := cq.NewOut(a.Out, "From Verif Require Import C11.Model.", "kase", 150)
	r := a.Rng
	cr := func(k int, tg string) oper { return oper{kind: "create", k: k, target: tg} }
	// corpus: the former violations
	runCase(out, []oper{cr(1, targets[0]), {kind: "pause", k: 1, fk: "task.put", fn: 1}, {kind: "get", k: 1}, {kind: "pause", k: 1}}, "corpus: pause whose store update fails")
	runCase(out, []oper{cr(1, targets[0]), {kind: "pause", k: 1}, {kind: "resume", k: 1, fk: "task.put", fn: 1}, {kind: "get", k: 1}, {kind: "resume", k: 1}}, "corpus: resume whose store update fails")
	runCase(out, []oper{cr(1, targets[0]), cr(2, targets[0]), {kind: "pause", k: 1, fk: "task.get", fn: 1}, {kind: "delete", k: 2}, {kind: "restart"}}, "corpus: pause whose store read fails, then restart")
	runCase(out, []oper{cr(1, targets[0]), cr(2, targets[0]), {kind: "pause", k: 1}, {kind: "restart", fk: "pos.get", fn: 1}, {kind: "get", k: 1}, {kind: "restart", fk: "pos.get", fn: 2}, {kind: "get", k: 2}},
		"corpus: a paused task whose start fails at reload is paused again")
	for id := 0; id < a.N; id++ {
		nops := 3 + r.Intn(10)
		var ops []oper
		next := 1
		state := map[int]string{} // the generator's guess of each task's state (steers the choice only)
		for k := 0; k < nops; k++ {
			x := r.Intn(100)
			pickIn := func(want string) int {
				var c []int
				for t, st := range state {
					if st == want {
						c = append(c, t)
					}
				}
				sort.Ints(c)
				if len(c) == 0 || r.Intn(5) == 0 {
					if next == 1 {
						return 1
					}
					return 1 + r.Intn(next-1)
				}
				return c[r.Intn(len(c))]
			}
			pick := func() int { return pickIn("any") }
			var o oper
			switch {
			case x < 30 || next == 1:
				if next > 6 {
					continue
				}
				o = oper{kind: "create", k: next, target: targets[r.Intn(3)/2], aoff: r.Intn(4) == 0}
				next++
				if r.Intn(4) == 0 {
					f := [][2]interface{}{{"task.get", 1}, {"pos.put", 1}, {"task.put", 1}, {"pos.get", 1}, {"task.get", 2}, {"task.put", 2}}[r.Intn(6)]
					o.fk, o.fn = f[0].(string), f[1].(int)
				}
				if r.Intn(12) == 0 && next > 2 { // same id as an earlier create
					o.k = pick()
					next--
					o.fk = ""
				}
			case x < 50:
				o = oper{kind: "pause", k: pickIn("running")}
				if r.Intn(3) == 0 {
					o.fk, o.fn = []string{"task.get", "task.put"}[r.Intn(2)], 1
				}
			case x < 70:
				o = oper{kind: "resume", k: pickIn("paused")}
				if r.Intn(3) == 0 {
					o.fk, o.fn = []string{"pos.get", "task.get", "task.put"}[r.Intn(3)], 1
				}
			case x < 82:
				o = oper{kind: "delete", k: pick()}
				if r.Intn(3) == 0 {
					o.fk, o.fn = []string{"task.get", "txn.commit"}[r.Intn(2)], 1
				}
			case x < 90:
				o = oper{kind: "get", k: pick()}
				if r.Intn(4) == 0 {
					o.fk, o.fn = "task.get", 1
				}
			default:
				o = oper{kind: "restart"}
				// a task with auto start disabled is paused by the reload, which releases the idle entity of its target; a
				// later task of that target would then build a real entity (etcd, MQ), which this harness cannot provide: its
				// start fails without reading a position, and the armed fault hits another task than in the model
				aoff := false
				for _, p := range ops {
					aoff = aoff || (p.kind == "create" && p.aoff)
				}
				if r.Intn(3) == 0 && !aoff {
					o.fk, o.fn = "pos.get", 1+r.Intn(3)
				}
			}
			// the target of a task is fixed by its first create
			if o.kind == "create" {
				for _, p := range ops {
					if p.kind == "create" && p.k == o.k {
						o.target, o.aoff = p.target, p.aoff
					}
				}
			}
			ops = append(ops, o)
			if o.fk == "" {
				switch o.kind {
				case "create":
					if state[o.k] == "" {
						state[o.k] = "running"
					}
				case "pause":
					if state[o.k] == "running" {
						state[o.k] = "paused"
					}
				case "resume":
					if state[o.k] == "paused" {
						state[o.k] = "running"
					}
				case "delete":
					delete(state, o.k)
				}
			}
		}
		runCase(out, ops, "random")
	}
	// probe (fresh child process): closed barriers must not consume CPU
	{
		self, _ := os.Executable()
		o, err := exec.Command(self, "-probe").Output()
		n, used := 0, int64(100000)
		if err == nil {
			for _, l := range strings.Split(string(o), "\n") {
				if strings.HasPrefix(l, "PROBE ") {
					fmt.Sscanf(l, "PROBE %d %d", &n, &used)
				}
			}
		}
		out.Add(fmt.Sprintf("(KBarrier %d%%N %d%%N 400%%N)", n, used))
		out.Count("barrier-probe")
		out.Extra["barrier_probe_cpu_ms_in_400ms_window"] = used
	}
	out.Extra["corpus_cases"] = 4
	if err := out.Flush(); err != nil {
		panic(err)
	}
}
