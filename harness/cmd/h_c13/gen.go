package main

import (
	"sort"

	"verifharness/lib/hx"
)

type ccase struct {
	dbs int
	ws  []write
}

func cw(phase int, db, id int64, name, state string, ct uint64) write {
	return write{phase: phase, coll: true, db: db, id: id, name: name, state: state, ct: ct}
}
func pw(phase int, cid, id int64, name, state string) write {
	return write{phase: phase, cid: cid, id: id, name: name, state: state, ct: 5}
}

func corpus() []ccase {
	return []ccase{
		// created before the listing, between opening the watch and the listing, between the two listings, before and after start-watch
		{1, []write{cw(0, 1, 100, "a", "SCreated", 10), cw(1, 1, 101, "b", "SCreated", 20), cw(2, 1, 102, "c", "SCreated", 30),
			cw(3, 1, 103, "d", "SCreated", 40), cw(4, 1, 104, "e", "SCreated", 50),
			pw(0, 100, 1000, "_default", "SCreated"), pw(0, 100, 1001, "p1", "SCreated"), pw(1, 101, 1002, "p1", "SCreated"),
			pw(2, 102, 1003, "p1", "SCreated"), pw(3, 103, 1004, "p1", "SCreated"), pw(4, 104, 1005, "p1", "SCreated")}},
		// several incarnations of a name: only the newest is started, the older ones are reported dropped
		{1, []write{cw(0, 1, 100, "a", "SDropped", 10), cw(0, 1, 101, "a", "SDropped", 20), cw(0, 1, 102, "a", "SCreated", 30),
			pw(0, 100, 1000, "p1", "SDropped"), pw(0, 102, 1001, "p1", "SCreated")}},
		// creating -> created across the phases; creating -> tombstone
		{1, []write{cw(0, 1, 100, "a", "SCreating", 10), cw(1, 1, 100, "a", "SCreated", 10), cw(0, 1, 101, "b", "SCreating", 20), cw(2, 1, 101, "b", "STomb", 20),
			cw(3, 1, 102, "c", "SCreating", 30), cw(4, 1, 102, "c", "SCreated", 30), cw(4, 1, 103, "d", "SCreating", 40), cw(4, 1, 103, "d", "STomb", 40)}},
		// two databases: a collection of the first database created after the listing, with a partition
		{2, []write{cw(0, 2, 200, "x", "SCreated", 5), cw(2, 1, 100, "a", "SCreated", 10), pw(2, 100, 1000, "p1", "SCreated"),
			cw(4, 1, 101, "b", "SCreated", 20), pw(4, 101, 1001, "p1", "SCreated")}},
		// a database created after the task has started (after StartWatch), then a collection with a partition in it
		{24, []write{cw(0, 1, 100, "a", "SCreated", 10), cw(4, 2, 200, "x", "SCreated", 20), pw(4, 200, 2001, "p1", "SCreated")}},
		// ... created between the two listings
		{22, []write{cw(0, 1, 100, "a", "SCreated", 10), cw(2, 2, 200, "x", "SCreated", 20), pw(3, 200, 2001, "p1", "SCreated"), cw(4, 2, 201, "y", "SCreated", 30)}},
		// partition names around the default partition's: "q_default" is an ordinary partition, "_default_0" belongs to a partition-key collection
		{1, []write{cw(0, 1, 100, "a", "SCreated", 10), pw(0, 100, 1000, "_default", "SCreated"), pw(0, 100, 1001, "q_default", "SCreated"), pw(0, 100, 1002, "_default_0", "SCreated"),
			cw(4, 1, 101, "b", "SCreated", 20), pw(4, 101, 1003, "q_default", "SCreated"), pw(4, 101, 1004, "_default_1", "SCreated")}},
				// notified twice: listed and then written again after the watch was opened
		{1, []write{cw(0, 1, 100, "a", "SCreated", 10), cw(4, 1, 100, "a", "SCreated", 10), pw(0, 100, 1000, "p1", "SCreated"), pw(4, 100, 1000, "p1", "SCreated")}},
	}
}

func generate(a *hx.Args) (int, []write) {
	r := a.Rng
	dbs := 1
	dbPhase := 0
	if r.Intn(3) == 0 {
		dbs = 2
		if r.Intn(2) == 0 {
			dbPhase = 1 + r.Intn(4) // the second database is created while the reader starts up, or later
		}
	}
	names := []string{"a", "b", "c"}
	var ws []write
	ncoll := 1 + r.Intn(5)
	ct := uint64(10)
	for i := 0; i < ncoll; i++ {
		id := int64(100 + i)
		db := int64(1 + r.Intn(dbs))
		name := names[r.Intn(len(names))]
		ct += uint64(1 + r.Intn(5))
		phase := r.Intn(5)
		if db == 2 && phase < dbPhase {
			phase = dbPhase
		}
		next := func() {
			if r.Intn(2) == 0 && phase < 4 {
				phase += 1 + r.Intn(4-phase)
			}
		}
		tomb := false
		switch k := r.Intn(10); {
		case k < 5: // creating -> created
			if r.Intn(2) == 0 {
				ws = append(ws, cw(phase, db, id, name, "SCreating", ct))
				next()
			}
			ws = append(ws, cw(phase, db, id, name, "SCreated", ct))
		case k < 8: // ... -> dropping -> dropped
			if r.Intn(2) == 0 {
				ws = append(ws, cw(phase, db, id, name, "SCreated", ct))
				next()
			}
			if r.Intn(2) == 0 {
				ws = append(ws, cw(phase, db, id, name, "SDropping", ct))
				next()
			}
			ws = append(ws, cw(phase, db, id, name, "SDropped", ct))
		default: // creating -> tombstone
			ws = append(ws, cw(phase, db, id, name, "SCreating", ct))
			next()
			ws = append(ws, cw(phase, db, id, name, "STomb", ct))
			tomb = true
		}
		if !tomb {
			first := 5
			for _, w := range ws {
				if w.coll && w.id == id && w.phase < first {
					first = w.phase
				}
			}
			np := r.Intn(3)
			for j := 0; j < np; j++ {
				pid := int64(1000 + 10*i + j)
				pname := []string{"p1", "p2", "_default", "q_default", "_default_0", "p1"}[r.Intn(6)]
				pp := first + r.Intn(5-first)
				if r.Intn(3) == 0 {
					ws = append(ws, pw(pp, id, pid, pname, "SCreating"))
					if pp < 4 && r.Intn(2) == 0 {
						pp += 1 + r.Intn(4-pp)
					}
				}
				ws = append(ws, pw(pp, id, pid, pname, "SCreated"))
				if r.Intn(5) == 0 {
					if pp < 4 && r.Intn(2) == 0 {
						pp += 1 + r.Intn(4-pp)
					}
					ws = append(ws, pw(pp, id, pid, pname, "SDropped"))
				}
			}
		}
	}
	// writes are made phase by phase; inside a phase in the order generated (a collection before its partitions)
	sort.SliceStable(ws, func(i, j int) bool { return ws[i].phase < ws[j].phase })
	if dbs == 2 && dbPhase > 0 {
		return 20 + dbPhase, ws
	}
	return dbs, ws
}
