// h_c13: runs the real CollectionReader.StartRead on the real EtcdOp against an embedded etcd whose catalog is written by a
// script at five phases relative to the reader's steps, records what the channel manager is asked to do and writes script
// and calls as Coq cases.
package main

import (
	"context"
	"fmt"
	"sort"
	"strings"
	"sync"
	"time"

	"google.golang.org/protobuf/proto"

	"github.com/milvus-io/milvus-proto/go-api/v2/commonpb"
	"github.com/milvus-io/milvus-proto/go-api/v2/msgpb"
	"github.com/milvus-io/milvus-proto/go-api/v2/schemapb"

	"github.com/zilliztech/milvus-cdc/core/api"
	"github.com/zilliztech/milvus-cdc/core/config"
	"github.com/zilliztech/milvus-cdc/core/model"
	"github.com/zilliztech/milvus-cdc/core/pb"
	"github.com/zilliztech/milvus-cdc/core/reader"
	"github.com/zilliztech/milvus-cdc/core/util"

	"verifharness/lib/cq"
	"verifharness/lib/efake"
	"verifharness/lib/hx"
)

type write struct {
	phase int
	coll  bool
	db    int64
	id    int64 // collection id, or partition id
	cid   int64 // partition: its collection
	name  string
	state string // SCreating SCreated SDropping SDropped STomb
	ct    uint64
}

// ---------------------------------------------------------------- recording channel manager
type fakeCM struct {
	*api.DefaultChannelManager
	mu        sync.Mutex
	started   []int64
	parts     [][2]int64
	dropped   []int64
	dropParts []int64
	n         int
}

func (f *fakeCM) StartReadCollection(ctx context.Context, db *model.DatabaseInfo, info *pb.CollectionInfo, seek []*msgpb.MsgPosition, st map[string]uint64) error {
	f.mu.Lock()
	defer f.mu.Unlock()
	f.started = append(f.started, info.ID)
	f.n++
	return nil
}
func (f *fakeCM) AddPartition(ctx context.Context, db *model.DatabaseInfo, c *pb.CollectionInfo, p *pb.PartitionInfo) error {
	f.mu.Lock()
	defer f.mu.Unlock()
	f.parts = append(f.parts, [2]int64{c.ID, p.PartitionID})
	f.n++
	return nil
}
func (f *fakeCM) AddDroppedCollection(ids []int64) {
	f.mu.Lock()
	defer f.mu.Unlock()
	f.dropped = append(f.dropped, ids...)
	f.n++
}
func (f *fakeCM) AddDroppedPartition(ids []int64) {
	f.mu.Lock()
	defer f.mu.Unlock()
	f.dropParts = append(f.dropParts, ids...)
	f.n++
}
func (f *fakeCM) count() int { f.mu.Lock(); defer f.mu.Unlock(); return f.n }

type fakeTarget struct{ *api.DefaultTargetAPI }

func (fakeTarget) GetDatabaseName(ctx context.Context, c, d string) (string, error) { return d, nil }

// ---------------------------------------------------------------- MetaOp wrapper that makes the scheduled catalog writes
type stepOp struct {
	api.MetaOp
	at func(phase int)
}

func (s *stepOp) GetAllCollection(ctx context.Context, f api.CollectionFilter) ([]*pb.CollectionInfo, error) {
	// both watches have been opened by now; give the server the time to register them (the hypothesis of the model)
	time.Sleep(30 * time.Millisecond)
	s.at(1)
	return s.MetaOp.GetAllCollection(ctx, f)
}
func (s *stepOp) GetAllPartition(ctx context.Context, f api.PartitionFilter) ([]*pb.PartitionInfo, error) {
	s.at(2)
	return s.MetaOp.GetAllPartition(ctx, f)
}
func (s *stepOp) StartWatch() {
	s.at(3)
	s.MetaOp.StartWatch()
}

// ---------------------------------------------------------------- one case
func cstate(s string) pb.CollectionState {
	switch s {
	case "SCreating":
		return pb.CollectionState_CollectionCreating
	case "SCreated":
		return pb.CollectionState_CollectionCreated
	case "SDropping":
		return pb.CollectionState_CollectionDropping
	}
	return pb.CollectionState_CollectionDropped
}
func pstate(s string) pb.PartitionState {
	switch s {
	case "SCreating":
		return pb.PartitionState_PartitionCreating
	case "SCreated":
		return pb.PartitionState_PartitionCreated
	case "SDropping":
		return pb.PartitionState_PartitionDropping
	}
	return pb.PartitionState_PartitionDropped
}

func runCase(et *efake.Etcd, out *cq.Out, seq int, dbs int, ws []write, kind string) {
	ctx, cancel := context.WithCancel(context.Background())
	defer cancel()
	root := fmt.Sprintf("r%d", seq)
	base := root + "/meta/root-coord/"
	put := func(k string, v []byte) {
		if _, err := et.Cli.Put(context.Background(), k, string(v)); err != nil {
			panic(err)
		}
	}
	pm := func(m proto.Message) []byte { b, _ := proto.Marshal(m); return b }
	put(base+"database/db-info/1", pm(&pb.DatabaseInfo{Id: 1, Name: "default"}))
	// the second database exists from the start (dbs = 2) or is created at a later phase (dbs = 20 + phase)
	dbPhase := -1
	if dbs == 2 {
		dbPhase = 0
	} else if dbs >= 20 {
		dbPhase = dbs - 20
	}
	if dbPhase == 0 {
		put(base+"database/db-info/2", pm(&pb.DatabaseInfo{Id: 2, Name: "db2"}))
	}
	fielded := map[int64]bool{}
	do := func(w write) {
		if w.coll {
			if !fielded[w.id] {
				put(fmt.Sprintf(base+"fields/%d/100", w.id), pm(&schemapb.FieldSchema{FieldID: 100, Name: "pk", DataType: schemapb.DataType_Int64, IsPrimaryKey: true}))
				fielded[w.id] = true
			}
			k := fmt.Sprintf(base+"database/collection-info/%d/%d", w.db, w.id)
			if w.state == "STomb" {
				put(k, util.SuffixSnapshotTombstone)
			} else {
				put(k, pm(&pb.CollectionInfo{ID: w.id, DbId: w.db, State: cstate(w.state), CreateTime: w.ct, Schema: &schemapb.CollectionSchema{Name: w.name},
					VirtualChannelNames: []string{fmt.Sprintf("dml_0_%dv0", w.id)}, PhysicalChannelNames: []string{"dml_0"},
					StartPositions: []*commonpb.KeyDataPair{{Key: "dml_0", Data: []byte{1}}}, ShardsNum: 1}))
			}
		} else {
			k := fmt.Sprintf(base+"partitions/%d/%d", w.cid, w.id)
			if w.state == "STomb" {
				put(k, util.SuffixSnapshotTombstone)
			} else {
				put(k, pm(&pb.PartitionInfo{PartitionID: w.id, PartitionName: w.name, CollectionId: w.cid, State: pstate(w.state), PartitionCreatedTimestamp: w.ct}))
			}
		}
	}
	at := func(phase int) {
		if phase == dbPhase && phase > 0 {
			put(base+"database/db-info/2", pm(&pb.DatabaseInfo{Id: 2, Name: "db2"}))
		}
		for _, w := range ws {
			if w.phase == phase {
				do(w)
			}
		}
	}
	at(0)
	op, err := reader.NewEtcdOpWithAddress([]string{et.Endpoint}, root, "meta", "_default",
		config.EtcdRetryConfig{Retry: config.RetrySettings{RetryTimes: 2, InitBackOff: 1, MaxBackOff: 1}}, fakeTarget{&api.DefaultTargetAPI{}})
	if err != nil {
		panic(err)
	}
	cm := &fakeCM{DefaultChannelManager: &api.DefaultChannelManager{}}
	r, err := reader.NewCollectionReader("task1", cm, &stepOp{MetaOp: op, at: at}, nil, nil,
		// the task selects both databases by name
		func(db *model.DatabaseInfo, c *pb.CollectionInfo) (bool, bool) { return false, db.Name == "default" || db.Name == "db2" },
		config.ReaderConfig{Retry: config.RetrySettings{RetryTimes: 2, InitBackOff: 1, MaxBackOff: 1}})
	if err != nil {
		panic(err)
	}
	r.StartRead(ctx)
	at(4)
	// quiescence: no new call for 150 ms
	last, since := cm.count(), time.Now()
	deadline := time.Now().Add(5 * time.Second)
	for time.Since(since) < 150*time.Millisecond && time.Now().Before(deadline) {
		time.Sleep(10 * time.Millisecond)
		if n := cm.count(); n != last {
			last, since = n, time.Now()
		}
	}
	cm.mu.Lock()
	defer cm.mu.Unlock()
	zs := func(l []int64) string {
		l = append([]int64{}, l...)
		sort.Slice(l, func(i, j int) bool { return l[i] < l[j] })
		return cq.MapList(l, cq.Z)
	}
	var sc []string
	for _, w := range ws {
		if w.coll {
			sc = append(sc, fmt.Sprintf("(%s, WC {| cw_db := %s; cw_id := %s; cw_name := %s; cw_state := %s; cw_create := %s |})",
				cq.Nat(w.phase), cq.Z(w.db), cq.Z(w.id), cq.Str(w.name), w.state, cq.N(w.ct)))
			out.Count(fmt.Sprintf("coll phase=%d %s", w.phase, w.state))
		} else {
			sc = append(sc, fmt.Sprintf("(%s, WP {| pw_coll := %s; pw_id := %s; pw_name := %s; pw_state := %s |})",
				cq.Nat(w.phase), cq.Z(w.cid), cq.Z(w.id), cq.Str(w.name), w.state))
			out.Count(fmt.Sprintf("part phase=%d %s", w.phase, w.state))
		}
	}
	out.Add(fmt.Sprintf("{| k_script := %s; k_started := %s; k_parts := %s; k_dropped := %s; k_dropped_parts := %s |}",
		cq.List(sc), zs(cm.started), cq.MapList(cm.parts, func(p [2]int64) string { return cq.Pair(cq.Z(p[0]), cq.Z(p[1])) }), zs(cm.dropped), zs(cm.dropParts)))
	out.Count("kind=" + kind)
	out.Count(fmt.Sprintf("databases=%d", dbs))
	out.CountN("calls", cm.n)
	if len(cm.started) > 0 {
		out.NonTrivial(strings.Join(sc, ";"))
	}
}

func main() {
	a := hx.Parse()
	et := efake.Start()
	defer et.Stop()
	out := cq.NewOut(a.Out, "From Verif Require Import C13.Model.", "case", 100)
	seq := 0
	for _, c := range corpus() {
		runCase(et, out, seq, c.dbs, c.ws, "corpus")
		seq++
	}
	for i := 0; i < a.N; i++ {
		dbs, ws := generate(a)
		runCase(et, out, seq, dbs, ws, "random")
		seq++
	}
	if err := out.Flush(); err != nil {
		panic(err)
	}
}
