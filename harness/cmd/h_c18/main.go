// h_c18: (1) differential cases for the two masking functions (server.GetRequestInfo, request.GetTask):
// which field canaries survive in their output; (2) canary scenarios: a child process runs the real
// MetaCDC behind the real HTTP handler with credential canaries in the create request, an API sequence
// and an injected failure; the parent scans the child's log output (stdout + stderr, log level debug)
// and every response body for the credential canaries.
package main

import (
	"bytes"
	"context"
	"encoding/base64"
	"encoding/json"
	"fmt"
	"net"
	"net/http/httptest"
	"os"
	"os/exec"
	"strings"
	"sync"
	"time"

	"github.com/milvus-io/milvus-proto/go-api/v2/commonpb"
	"github.com/milvus-io/milvus-proto/go-api/v2/milvuspb"
	"go.uber.org/zap/zapcore"
	"google.golang.org/grpc"

	"github.com/zilliztech/milvus-cdc/core/api"
	"github.com/zilliztech/milvus-cdc/core/config"
	"github.com/zilliztech/milvus-cdc/core/log"
	"github.com/zilliztech/milvus-cdc/server"
	"github.com/zilliztech/milvus-cdc/server/model"
	"github.com/zilliztech/milvus-cdc/server/model/meta"
	"github.com/zilliztech/milvus-cdc/server/model/request"
	"github.com/zilliztech/milvus-cdc/server/msgpacker"

	"verifharness/lib/cq"
	"verifharness/lib/hx"
	"verifharness/lib/sfake"
)

// ---------------------------------------------------------------- part 1: masks
var fieldNames = []string{"MHost", "MUser", "MPass", "MUri", "MToken", "KAddr", "KTopic", "KSUser", "KSPass", "KMech", "KProto"}

func canary(i int) string { return "CNRY" + fieldNames[i] + "x9" }

func fill(set []bool) (model.MilvusConnectParam, model.KafkaConnectParam) {
	g := func(i int) string {
		if set[i] {
			return canary(i)
		}
		return ""
	}
	m := model.MilvusConnectParam{Host: g(0), Username: g(1), Password: g(2), URI: g(3), Token: g(4), Port: 19530}
	k := model.KafkaConnectParam{Address: g(5), Topic: g(6), SASL: model.KafkaSASL{Username: g(7), Password: g(8), Mechanisms: g(9), SecurityProtocol: g(10)}}
	return m, k
}

func seen(text string) string {
	var b []string
	for i := range fieldNames {
		b = append(b, cq.Bool(strings.Contains(text, canary(i))))
	}
	return cq.List(b)
}

func maskCase(out *cq.Out, set []bool) {
	m, k := fill(set)
	req := &request.CreateRequest{MilvusConnectParam: m, KafkaConnectParam: k, TaskID: "t", CollectionInfos: []model.CollectionInfo{{Name: "c1"}}}
	reqText := server.GetRequestInfo(req)
	ti := &meta.TaskInfo{TaskID: "t", MilvusConnectParam: m, KafkaConnectParam: k, CollectionInfos: []model.CollectionInfo{{Name: "c1"}}}
	tb, _ := json.Marshal(request.GetTask(ti))
	var sb []string
	for _, s := range set {
		sb = append(sb, cq.Bool(s))
	}
	out.Add(fmt.Sprintf("(CMask {| mc_set := %s; mc_req_seen := %s; mc_task_seen := %s |})", cq.List(sb), seen(reqText), seen(string(tb))))
	out.Count("mask-case")
}

// ---------------------------------------------------------------- part 2: scenarios
type scenario struct {
	Name    string   `json:"name"`
	Target  string   `json:"target"`  // milvus-userpass milvus-token kafka-sasl
	Create  string   `json:"create"`  // ok dup limit store-put bad-rpc dial-fail start-fail bad-name
	Follow  []string `json:"follow"`  // get list pause resume position delete restart restart-start-fail pause-store-fail
	Secrets []string `json:"secrets"` // filled by the child: the credential canaries of this scenario
}

var credCanaries = []string{"CNRYmilvusPWx7", "CNRYmilvusTOKx7", "CNRYsaslPWx7"}

type fakeMilvus struct {
	milvuspb.UnimplementedMilvusServiceServer
}

func (f *fakeMilvus) Connect(ctx context.Context, r *milvuspb.ConnectRequest) (*milvuspb.ConnectResponse, error) {
	return &milvuspb.ConnectResponse{Status: &commonpb.Status{}, ServerInfo: &commonpb.ServerInfo{BuildTags: "v2.5.0"}, Identifier: 7}, nil
}

func (f *fakeMilvus) ListDatabases(ctx context.Context, r *milvuspb.ListDatabasesRequest) (*milvuspb.ListDatabasesResponse, error) {
	return &milvuspb.ListDatabasesResponse{Status: &commonpb.Status{}, DbNames: []string{"default"}}, nil
}

func emit(kind string, v string) {
	fmt.Printf("\n@@%s %s\n", kind, base64.StdEncoding.EncodeToString([]byte(v)))
}

func child(sc scenario) {
	log.SetLevel(zapcore.DebugLevel)
	config.InitCommonConfig(func(c *config.CommonConfig) {
		c.Retry = config.RetrySettings{RetryTimes: 1, InitBackOff: 1, MaxBackOff: 1}
	})
	lis, err := net.Listen("tcp", "127.0.0.1:0")
	if err != nil {
		panic(err)
	}
	gs := grpc.NewServer()
	milvuspb.RegisterMilvusServiceServer(gs, &fakeMilvus{})
	go func() { _ = gs.Serve(lis) }()
	port := lis.Addr().(*net.TCPAddr).Port

	w := sfake.NewWorld()
	cfg := &server.CDCServerConfig{MaxTaskNum: 10, Retry: config.RetrySettings{RetryTimes: 1, InitBackOff: 1, MaxBackOff: 1},
		SourceConfig: server.MilvusSourceConfig{ReplicateChan: "rpc-chan"}, Packer: msgpacker.PackerConfig{MaxCount: 2, TimerInterval: 3600000}}
	var cdc *server.MetaCDC
	mURI := fmt.Sprintf("http://127.0.0.1:%d", port)
	kAddr := "127.0.0.1:19092"
	uKey := mURI
	if sc.Target == "kafka-sasl" {
		uKey = kAddr
	}
	boot := func() {
		w.Mu.Lock()
		w.Epoch++
		ep := w.Epoch
		w.Mu.Unlock()
		cdc = server.NewVerifMetaCDC(cfg, &sfake.Factory{W: w, Epoch: ep}, nil)
	}
	entity := func() {
		for _, e := range cdc.VerifSnapshot().Entities {
			if e.Key == uKey {
				return
			}
		}
		cdc.VerifPutEntity(uKey, sfake.NewCM(w), nil, &sfake.MetaOp{DefaultMetaOp: &api.DefaultMetaOp{}}, &sfake.Writer{DefaultWriter: &api.DefaultWriter{}, W: w}, sfake.NewDisp(w))
	}
	boot()
	entity()
	h := func() *httptestHandler { return &httptestHandler{cdc: cdc, cfg: cfg} }
	post := func(step, typ string, data map[string]any) {
		entity()
		emit("STEP", step)
		body, _ := json.Marshal(map[string]any{"request_type": typ, "request_data": data})
		emit("RESP", h().do(body))
	}
	data := map[string]any{"task_id": "t1", "db_collections": map[string]any{"db1": []any{map[string]any{"name": "c1"}}}}
	switch sc.Target {
	case "milvus-userpass":
		data["milvus_connect_param"] = map[string]any{"host": "127.0.0.1", "port": port, "username": "root", "password": credCanaries[0], "connect_timeout": 2}
	case "milvus-token":
		data["milvus_connect_param"] = map[string]any{"uri": mURI, "token": credCanaries[1], "connect_timeout": 2}
	default:
		data["kafka_connect_param"] = map[string]any{"address": kAddr, "topic": "t", "enable_sasl": true,
			"sasl": map[string]any{"username": "sasluser", "password": credCanaries[2], "mechanisms": "PLAIN", "security_protocol": "SASL_PLAINTEXT"}}
	}
	switch sc.Create {
	case "dup":
		d2 := map[string]any{}
		for k, v := range data {
			d2[k] = v
		}
		d2["task_id"] = "t0"
		post("create-first", "create", d2)
	case "limit":
		cfg.MaxTaskNum = 0
	case "store-put":
		w.FailNext("task.put", 1)
	case "bad-rpc":
		data["rpc_channel_info"] = map[string]any{"name": "foreign"}
	case "bad-name":
		data["db_collections"] = map[string]any{"db1": []any{map[string]any{"name": ""}}}
	case "start-fail":
		w.FailNext("pos.get", 1)
	case "dial-fail":
		if mp, ok := data["milvus_connect_param"].(map[string]any); ok {
			if _, has := mp["uri"]; has {
				mp["uri"] = "http://127.0.0.1:1"
			} else {
				mp["port"] = 1
			}
			mp["connect_timeout"] = 1
		}
	}
	post("create/"+sc.Create, "create", data)
	cfg.MaxTaskNum = 10
	w.ClearFaults()
	for _, f := range sc.Follow {
		switch f {
		case "get", "pause", "resume", "delete", "position":
			post(f, f, map[string]any{"task_id": "t1"})
		case "list":
			post(f, f, map[string]any{})
		case "pause-store-fail":
			w.FailNext("task.put", 1)
			post(f, "pause", map[string]any{"task_id": "t1"})
			w.ClearFaults()
		case "restart", "restart-start-fail":
			emit("STEP", f)
			boot()
			entity()
			if f == "restart-start-fail" {
				w.FailNext("pos.get", 1)
			}
			cdc.ReloadTask()
			w.ClearFaults()
			emit("RESP", "")
		}
	}
	time.Sleep(100 * time.Millisecond)
	emit("STEP", "end")
	os.Stdout.Sync()
}

type httptestHandler struct {
	cdc *server.MetaCDC
	cfg *server.CDCServerConfig
}

func (h *httptestHandler) do(body []byte) (out string) {
	defer func() {
		if r := recover(); r != nil {
			out = fmt.Sprintf("PANIC %v", r)
		}
	}()
	rec := httptest.NewRecorder()
	server.NewVerifHandler(h.cdc, h.cfg).ServeHTTP(rec, httptest.NewRequest("POST", "/cdc", bytes.NewReader(body)))
	return rec.Body.String()
}

func runScenario(self string, sc scenario) (steps []string, ok bool, found int) {
	b, _ := json.Marshal(sc)
	ctx, cancel := context.WithTimeout(context.Background(), 90*time.Second)
	defer cancel()
	cmd := exec.CommandContext(ctx, self, "-child", string(b), "-out", "/dev/null")
	var buf bytes.Buffer
	cmd.Stdout = &buf
	cmd.Stderr = &buf
	err := cmd.Run()
	text := buf.String()
	// split into steps
	name := "start"
	var logPart strings.Builder
	resp := ""
	flush := func() {
		var inLog, inResp []string
		for _, c := range credCanaries {
			if strings.Contains(logPart.String(), c) {
				inLog = append(inLog, c)
			}
			if strings.Contains(resp, c) {
				inResp = append(inResp, c)
			}
		}
		found += len(inLog) + len(inResp)
		steps = append(steps, fmt.Sprintf("{| st_name := %s; st_in_log := %s; st_in_resp := %s |}", cq.Str(name), cq.Strs(inLog), cq.Strs(inResp)))
		logPart.Reset()
		resp = ""
	}
	sawEnd := false
	for _, line := range strings.Split(text, "\n") {
		if strings.HasPrefix(line, "@@STEP ") {
			flush()
			d, _ := base64.StdEncoding.DecodeString(strings.TrimPrefix(line, "@@STEP "))
			name = string(d)
			if name == "end" {
				sawEnd = true
			}
			continue
		}
		if strings.HasPrefix(line, "@@RESP ") {
			d, _ := base64.StdEncoding.DecodeString(strings.TrimPrefix(line, "@@RESP "))
			resp += string(d)
			continue
		}
		logPart.WriteString(line)
		logPart.WriteString("\n")
	}
	flush()
	return steps, err == nil && sawEnd, found
}

func main() {
	for i, a := range os.Args {
		if a == "-child" && i+1 < len(os.Args) {
			var sc scenario
			if err := json.Unmarshal([]byte(os.Args[i+1]), &sc); err != nil {
				panic(err)
			}
			child(sc)
			return
		}
	}
	a := hx.Parse()
	out := cq.NewOut(a.Out, "From Verif Require Import C18.Model.", "case", 400)
	// masks: exhaustive over which of the 11 fields are set in the thorough tier, random subsets otherwise
	if a.Tier == "thorough" {
		for m := 0; m < 1<<11; m++ {
			set := make([]bool, 11)
			for i := range set {
				set[i] = m&(1<<i) != 0
			}
			maskCase(out, set)
		}
		out.Extra["exhaustive_part"] = "all 2048 subsets of the 11 credential-bearing string fields being set"
	} else {
		all := make([]bool, 11)
		for i := range all {
			all[i] = true
		}
		maskCase(out, all)
		for k := 0; k < 150; k++ {
			set := make([]bool, 11)
			for i := range set {
				set[i] = a.Rng.Intn(2) == 0
			}
			maskCase(out, set)
		}
	}
	// scenarios
	targets := []string{"milvus-userpass", "milvus-token", "kafka-sasl"}
	creates := []string{"ok", "dup", "limit", "store-put", "bad-rpc", "bad-name", "start-fail", "dial-fail"}
	follows := [][]string{
		{"get", "list"}, {"pause", "get", "resume", "list"}, {"position", "delete", "list"},
		{"get", "restart", "list", "get"}, {"restart-start-fail", "get", "list"}, {"pause-store-fail", "get", "restart", "get"},
		{"pause", "restart", "resume", "delete"},
	}
	var scs []scenario
	for _, t := range targets {
		for _, c := range creates {
			if c == "dial-fail" && t == "kafka-sasl" {
				continue
			}
			scs = append(scs, scenario{Name: t + "/" + c, Target: t, Create: c, Follow: follows[0]})
		}
		for _, f := range follows[1:] {
			scs = append(scs, scenario{Name: t + "/ok/" + strings.Join(f, ","), Target: t, Create: "ok", Follow: f})
		}
	}
	n := a.N
	if n > len(scs) || a.Tier == "thorough" {
		n = len(scs)
	}
	// quick tier: a seeded sample that always contains the failure paths of creation
	if n < len(scs) {
		a.Rng.Shuffle(len(scs), func(i, j int) { scs[i], scs[j] = scs[j], scs[i] })
		scs = scs[:n]
	}
	self, _ := os.Executable()
	type res struct {
		steps []string
		ok    bool
		found int
	}
	results := make([]res, len(scs))
	var wg sync.WaitGroup
	sem := make(chan struct{}, 12)
	for i := range scs {
		wg.Add(1)
		go func(i int) {
			defer wg.Done()
			sem <- struct{}{}
			st, ok, f := runScenario(self, scs[i])
			<-sem
			results[i] = res{st, ok, f}
		}(i)
	}
	wg.Wait()
	bad := 0
	for i, sc := range scs {
		r := results[i]
		if !r.ok {
			bad++
			out.Count("scenario-child-failed")
			r.steps = append(r.steps, fmt.Sprintf("{| st_name := %s; st_in_log := [%s]; st_in_resp := [] |}", cq.Str("child process failed or timed out"), cq.Str("CHILD-FAILED")))
		}
		out.Add(fmt.Sprintf("(CScen %s %s)", cq.Str(sc.Name), cq.List(r.steps)))
		out.Count("scenario/" + sc.Create)
		out.NonTrivial(sc.Name)
		out.Sample(map[string]interface{}{"scenario": sc, "steps": r.steps})
	}
	out.Extra["scenarios"] = len(scs)
	out.Extra["scenario_children_failed"] = bad
	if err := out.Flush(); err != nil {
		panic(err)
	}
}
