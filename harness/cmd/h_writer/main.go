// h_writer: drives the real writer.ChannelWriter (HandleOpMessagePack / HandleReplicateAPIEvent) over a recording
// fake DataHandler.  Modes (-mode): c08 (incarnation histories), c09 (kind x database x mapping table), c20 (field contents).
package main

import (
	"context"
	"flag"
	"fmt"
	"math/rand"
	"strings"

	"github.com/milvus-io/milvus-proto/go-api/v2/commonpb"
	"github.com/milvus-io/milvus-proto/go-api/v2/milvuspb"
	"github.com/milvus-io/milvus-proto/go-api/v2/msgpb"
	"github.com/milvus-io/milvus-proto/go-api/v2/schemapb"
	"github.com/milvus-io/milvus/pkg/mq/msgstream"

	"github.com/zilliztech/milvus-cdc/core/api"
	"github.com/zilliztech/milvus-cdc/core/config"
	"github.com/zilliztech/milvus-cdc/core/pb"
	"github.com/zilliztech/milvus-cdc/core/util"
	"github.com/zilliztech/milvus-cdc/core/writer"

	"verifharness/lib/cq"
	"verifharness/lib/hx"
	"verifharness/lib/wfake"
)

var mode = flag.String("mode", "c08", "c08|c09|c20")

type fakeMeta struct{ api.ReplicateMeta }

func (fakeMeta) RemoveTaskMsg(ctx context.Context, taskID string, msgID string) error { return nil }

type mapping [][4]string // sdb, scoll, tdb, tcoll

type caseEnv struct {
	milvus bool
	rid    string
	nm     mapping
	dbs    []string
	colls  [][2]string
	parts  [][3]string
	tdb    map[string]uint64
	tcoll  map[string]uint64
	tpart  map[string]uint64
	// warm: before the name mappings are installed the writer sees (failing) traffic for every source name - the mappings of a
	// task that is added later to a shared writer must take effect for names that were resolved before
	warm bool
}

type op struct {
	term string // Coq wop term
	fail bool
	run  func(w api.Writer) error
}

func bm(ets uint64) msgstream.BaseMsg {
	return msgstream.BaseMsg{BeginTimestamp: ets, EndTimestamp: ets, HashValues: []uint32{0}}
}

var srcBaseCalls int

// srcBase: the base of a source operation message; every third one already carries a replicate info (a message that went
// through an earlier replication hop): the request sent downstream must carry this hop's stamp all the same
func srcBase(t commonpb.MsgType) *commonpb.MsgBase {
	srcBaseCalls++
	b := &commonpb.MsgBase{MsgType: t, MsgID: 77, Timestamp: 5, SourceID: 3}
	switch srcBaseCalls % 3 {
	case 1:
		b.ReplicateInfo = &commonpb.ReplicateInfo{IsReplicate: true, MsgTimestamp: 17, ReplicateID: "hop-A"}
	case 2:
		if srcBaseCalls%2 == 0 {
			b.ReplicateInfo = &commonpb.ReplicateInfo{}
		}
	}
	return b
}

func pack(stamp uint64, msgs ...msgstream.TsMsg) *msgstream.MsgPack {
	return &msgstream.MsgPack{
		BeginTs: stamp, EndTs: stamp, Msgs: msgs,
		StartPositions: []*msgpb.MsgPosition{{ChannelName: "rpc", MsgID: []byte("s"), Timestamp: stamp}},
		EndPositions:   []*msgpb.MsgPosition{{ChannelName: "rpc", MsgID: []byte("e"), Timestamp: stamp}},
	}
}

func opMsg(stamp uint64, m msgstream.TsMsg) func(w api.Writer) error {
	return func(w api.Writer) error {
		_, err := w.HandleOpMessagePack(context.Background(), pack(stamp, m))
		return err
	}
}

func kvs(r *rand.Rand, n int, pfx string) []*commonpb.KeyValuePair {
	var out []*commonpb.KeyValuePair
	for i := 0; i < n; i++ {
		out = append(out, &commonpb.KeyValuePair{Key: fmt.Sprintf("%s%d", pfx, i), Value: randName(r)})
	}
	return out
}

func randName(r *rand.Rand) string {
	alphabet := []string{"a", "b", "Z", "9", "_", "-", ".", " ", "/", "%", "*", "é", "\"", "'"}
	n := 1 + r.Intn(6)
	var b strings.Builder
	for i := 0; i < n; i++ {
		b.WriteString(alphabet[r.Intn(len(alphabet))])
	}
	return b.String()
}

func schema(r *rand.Rand, name string, rich bool) *schemapb.CollectionSchema {
	s := &schemapb.CollectionSchema{Name: name, Description: randName(r), AutoID: r.Intn(2) == 0, EnableDynamicField: r.Intn(2) == 0}
	s.Fields = append(s.Fields, &schemapb.FieldSchema{FieldID: 100, Name: "pk", IsPrimaryKey: true, DataType: schemapb.DataType_Int64, AutoID: s.AutoID})
	s.Fields = append(s.Fields, &schemapb.FieldSchema{FieldID: 101, Name: "vec", DataType: schemapb.DataType_FloatVector,
		TypeParams: []*commonpb.KeyValuePair{{Key: "dim", Value: fmt.Sprint(4 + r.Intn(100))}}})
	nf := r.Intn(3)
	if rich {
		nf = 1 + r.Intn(2)
	}
	for i := 0; i < nf; i++ {
		f := &schemapb.FieldSchema{FieldID: int64(102 + i), Name: fmt.Sprintf("f%d", i), Description: randName(r),
			DataType: []schemapb.DataType{schemapb.DataType_VarChar, schemapb.DataType_Int32, schemapb.DataType_JSON, schemapb.DataType_Array}[r.Intn(4)]}
		if rich && i == 0 {
			f.DataType = schemapb.DataType_Int32
		}
		if f.DataType == schemapb.DataType_VarChar {
			f.TypeParams = []*commonpb.KeyValuePair{{Key: "max_length", Value: "64"}}
			f.IsPartitionKey = r.Intn(4) == 0
		}
		if f.DataType == schemapb.DataType_Array {
			f.ElementType = schemapb.DataType_Int64
			f.TypeParams = []*commonpb.KeyValuePair{{Key: "max_capacity", Value: "8"}}
		}
		if rich && f.DataType == schemapb.DataType_Int32 {
			f.Nullable = true
			f.DefaultValue = &schemapb.ValueField{Data: &schemapb.ValueField_IntData{IntData: 7}}
		}
		s.Fields = append(s.Fields, f)
	}
	return s
}

var srcDBs = []string{"", "default", "db1", "db2"}
var srcColls = []string{"c1", "c2", "c3"}
var srcParts = []string{"p1", "p2"}

func mappingShape(k int) mapping {
	switch k {
	case 1:
		return mapping{{"db1", "c1", "tdb", "c1x"}}
	case 2:
		return mapping{{"db1", "*", "tdb", "*"}}
	case 3:
		return mapping{{"db9", "c9", "xdb", "y"}}
	case 4:
		return mapping{{"db1", "c1", "tdb", "c1x"}, {"db1", "*", "tdb", "*"}}
	case 5:
		return mapping{{"default", "c1", "tdb", "c1x"}}
	case 6:
		return mapping{{"default", "*", "tdb2", "*"}, {"db1", "c2", "tdb", "c2y"}}
	}
	return nil
}

func mapNames(nm mapping, db, coll string) (string, string) {
	if db == "" {
		db = "default"
	}
	for _, e := range nm {
		if e[0] == db && e[1] == coll {
			return e[2], e[3]
		}
	}
	for _, e := range nm {
		if e[0] == db && (e[1] == "*" || coll == "") {
			return e[2], coll
		}
	}
	return db, coll
}

func envTerm(e *caseEnv) string {
	nm := cq.MapList(e.nm, func(m [4]string) string {
		return cq.Pair(cq.Pair(cq.Str(m[0]), cq.Str(m[1])), cq.Pair(cq.Str(m[2]), cq.Str(m[3])))
	})
	colls := cq.MapList(e.colls, func(c [2]string) string { return cq.Pair(cq.Str(c[0]), cq.Str(c[1])) })
	parts := cq.MapList(e.parts, func(c [3]string) string { return cq.Pair(cq.Str(c[0]), cq.Pair(cq.Str(c[1]), cq.Str(c[2]))) })
	return fmt.Sprintf("{| e_milvus := %s; e_rid := %s; e_nm := %s; e_dbs := %s; e_colls := %s; e_parts := %s |}",
		cq.Bool(e.milvus), cq.Str(e.rid), nm, cq.Strs(e.dbs), colls, parts)
}

func tblTerm(m map[string]uint64) string {
	var out []string
	for k, v := range m {
		out = append(out, cq.Pair(cq.Str(k), cq.N(v)))
	}
	return cq.List(out)
}

func genOp(r *rand.Rand, e *caseEnv, kind int, db, coll string, parts []string, ts, stamp uint64, fail bool, rich bool) op {
	S, N, L := cq.Str, cq.N, cq.Strs
	ev := func(t api.ReplicateAPIEventType, sch *schemapb.CollectionSchema, part string, ci *pb.CollectionInfo) func(w api.Writer) error {
		return func(w api.Writer) error {
			if ci == nil {
				ci = &pb.CollectionInfo{Schema: sch}
			}
			a := &api.ReplicateAPIEvent{EventType: t, CollectionInfo: ci,
				ReplicateInfo:  &commonpb.ReplicateInfo{IsReplicate: true, MsgTimestamp: ts},
				ReplicateParam: api.ReplicateParam{Database: db}, TaskID: "task", MsgID: "m"}
			if part != "" {
				a.PartitionInfo = &pb.PartitionInfo{PartitionName: part}
			}
			return w.HandleReplicateAPIEvent(context.Background(), a)
		}
	}
	part := ""
	if len(parts) > 0 {
		part = parts[0]
	}
	switch kind {
	case 0:
		sch := schema(r, coll, rich)
		ci := &pb.CollectionInfo{Schema: sch, ShardsNum: int32(1 + r.Intn(4)), ConsistencyLevel: commonpb.ConsistencyLevel(r.Intn(4)), Properties: kvs(r, r.Intn(3), "prop")}
		pay := append(wfake.SchemaPay(sch), fmt.Sprintf("shards=%d", ci.ShardsNum), "consistency="+ci.ConsistencyLevel.String())
		pay = append(pay, wfake.KV(ci.Properties)...)
		return op{cq.App("EvCreateColl", S(db), S(coll), N(ts), L(pay)), fail, ev(api.ReplicateCreateCollection, sch, "", ci)}
	case 1:
		return op{cq.App("EvDropColl", S(db), S(coll), N(ts)), fail, ev(api.ReplicateDropCollection, &schemapb.CollectionSchema{Name: coll}, "", nil)}
	case 2:
		return op{cq.App("EvCreatePart", S(db), S(coll), S(part), N(ts)), fail, ev(api.ReplicateCreatePartition, &schemapb.CollectionSchema{Name: coll}, part, nil)}
	case 3:
		return op{cq.App("EvDropPart", S(db), S(coll), S(part), N(ts)), fail, ev(api.ReplicateDropPartition, &schemapb.CollectionSchema{Name: coll}, part, nil)}
	case 4:
		m := &msgstream.CreateDatabaseMsg{BaseMsg: bm(ts), CreateDatabaseRequest: &milvuspb.CreateDatabaseRequest{Base: srcBase(commonpb.MsgType_CreateDatabase), DbName: db}}
		return op{cq.App("MCreateDb", S(db), N(stamp)), fail, opMsg(stamp, m)}
	case 5:
		m := &msgstream.DropDatabaseMsg{BaseMsg: bm(ts), DropDatabaseRequest: &milvuspb.DropDatabaseRequest{Base: srcBase(commonpb.MsgType_DropDatabase), DbName: db}}
		return op{cq.App("MDropDb", S(db), N(stamp), N(ts)), fail, opMsg(stamp, m)}
	case 6:
		req := &milvuspb.AlterDatabaseRequest{Base: srcBase(commonpb.MsgType_AlterDatabase), DbName: db, Properties: kvs(r, 1+r.Intn(2), "dbprop")}
		m := &msgstream.AlterDatabaseMsg{BaseMsg: bm(ts), AlterDatabaseRequest: req}
		return op{cq.App("MAlterDb", S(db), N(stamp), L(wfake.KV(req.Properties))), fail, opMsg(stamp, m)}
	case 7:
		cs := []string{coll}
		if r.Intn(2) == 0 {
			cs = append(cs, srcColls[r.Intn(len(srcColls))])
		}
		m := &msgstream.FlushMsg{BaseMsg: bm(ts), FlushRequest: &milvuspb.FlushRequest{Base: srcBase(commonpb.MsgType_Flush), DbName: db, CollectionNames: cs}}
		return op{cq.App("MFlush", S(db), L(cs), N(stamp), N(ts)), fail, opMsg(stamp, m)}
	case 8:
		req := &milvuspb.CreateIndexRequest{Base: srcBase(commonpb.MsgType_CreateIndex), DbName: db, CollectionName: coll, FieldName: randName(r), IndexName: randName(r), ExtraParams: kvs(r, r.Intn(3), "ip")}
		m := &msgstream.CreateIndexMsg{BaseMsg: bm(ts), CreateIndexRequest: req}
		return op{cq.App("MCreateIndex", S(db), S(coll), N(stamp), N(ts), L(wfake.CreateIndexPay(req))), fail, opMsg(stamp, m)}
	case 9:
		req := &milvuspb.DropIndexRequest{Base: srcBase(commonpb.MsgType_DropIndex), DbName: db, CollectionName: coll, FieldName: randName(r), IndexName: randName(r)}
		m := &msgstream.DropIndexMsg{BaseMsg: bm(ts), DropIndexRequest: req}
		return op{cq.App("MDropIndex", S(db), S(coll), N(stamp), N(ts), L([]string{"index=" + req.IndexName, "field=" + req.FieldName})), fail, opMsg(stamp, m)}
	case 10:
		req := &milvuspb.AlterIndexRequest{Base: srcBase(commonpb.MsgType_AlterIndex), DbName: db, CollectionName: coll, IndexName: randName(r), ExtraParams: kvs(r, 1, "mmap.enabled")}
		m := &msgstream.AlterIndexMsg{BaseMsg: bm(ts), AlterIndexRequest: req}
		return op{cq.App("MAlterIndex", S(db), S(coll), N(stamp), N(ts), L(wfake.AlterIndexPay(req))), fail, opMsg(stamp, m)}
	case 11:
		req := &milvuspb.LoadCollectionRequest{Base: srcBase(commonpb.MsgType_LoadCollection), DbName: db, CollectionName: coll, ReplicaNumber: int32(r.Intn(4)), Refresh: r.Intn(2) == 0}
		m := &msgstream.LoadCollectionMsg{BaseMsg: bm(ts), LoadCollectionRequest: req}
		return op{cq.App("MLoadColl", S(db), S(coll), N(stamp), N(ts), L(wfake.LoadCollPay(req))), fail, opMsg(stamp, m)}
	case 12:
		m := &msgstream.ReleaseCollectionMsg{BaseMsg: bm(ts), ReleaseCollectionRequest: &milvuspb.ReleaseCollectionRequest{Base: srcBase(commonpb.MsgType_ReleaseCollection), DbName: db, CollectionName: coll}}
		return op{cq.App("MReleaseColl", S(db), S(coll), N(stamp), N(ts)), fail, opMsg(stamp, m)}
	case 13:
		req := &milvuspb.LoadPartitionsRequest{Base: srcBase(commonpb.MsgType_LoadPartitions), DbName: db, CollectionName: coll, PartitionNames: parts, ReplicaNumber: int32(r.Intn(4))}
		m := &msgstream.LoadPartitionsMsg{BaseMsg: bm(ts), LoadPartitionsRequest: req}
		return op{cq.App("MLoadParts", S(db), S(coll), L(parts), N(stamp), N(ts), L([]string{fmt.Sprintf("replica=%d", req.ReplicaNumber)})), fail, opMsg(stamp, m)}
	case 14:
		m := &msgstream.ReleasePartitionsMsg{BaseMsg: bm(ts), ReleasePartitionsRequest: &milvuspb.ReleasePartitionsRequest{Base: srcBase(commonpb.MsgType_ReleasePartitions), DbName: db, CollectionName: coll, PartitionNames: parts}}
		return op{cq.App("MReleaseParts", S(db), S(coll), L(parts), N(stamp), N(ts)), fail, opMsg(stamp, m)}
	case 15:
		req := &milvuspb.CreateCredentialRequest{Base: srcBase(commonpb.MsgType_CreateCredential), Username: randName(r), Password: randName(r)}
		return op{cq.App("MRbac", "KCreateUser", N(stamp), L([]string{"user=" + req.Username, "pw=" + req.Password})), fail, opMsg(stamp, &msgstream.CreateUserMsg{BaseMsg: bm(ts), CreateCredentialRequest: req})}
	case 16:
		req := &milvuspb.DeleteCredentialRequest{Base: srcBase(commonpb.MsgType_DeleteCredential), Username: randName(r)}
		return op{cq.App("MRbac", "KDeleteUser", N(stamp), L([]string{"user=" + req.Username})), fail, opMsg(stamp, &msgstream.DeleteUserMsg{BaseMsg: bm(ts), DeleteCredentialRequest: req})}
	case 17:
		req := &milvuspb.UpdateCredentialRequest{Base: srcBase(commonpb.MsgType_UpdateCredential), Username: randName(r), OldPassword: randName(r), NewPassword: randName(r)}
		return op{cq.App("MRbac", "KUpdateUser", N(stamp), L([]string{"user=" + req.Username, "old=" + req.OldPassword, "new=" + req.NewPassword})), fail, opMsg(stamp, &msgstream.UpdateUserMsg{BaseMsg: bm(ts), UpdateCredentialRequest: req})}
	case 18:
		req := &milvuspb.CreateRoleRequest{Base: srcBase(commonpb.MsgType_CreateRole), Entity: &milvuspb.RoleEntity{Name: randName(r)}}
		return op{cq.App("MRbac", "KCreateRole", N(stamp), L([]string{"role=" + req.Entity.Name})), fail, opMsg(stamp, &msgstream.CreateRoleMsg{BaseMsg: bm(ts), CreateRoleRequest: req})}
	case 19:
		req := &milvuspb.DropRoleRequest{Base: srcBase(commonpb.MsgType_DropRole), RoleName: randName(r)}
		return op{cq.App("MRbac", "KDropRole", N(stamp), L([]string{"role=" + req.RoleName})), fail, opMsg(stamp, &msgstream.DropRoleMsg{BaseMsg: bm(ts), DropRoleRequest: req})}
	case 20:
		req := &milvuspb.OperateUserRoleRequest{Base: srcBase(commonpb.MsgType_OperateUserRole), Username: randName(r), RoleName: randName(r), Type: milvuspb.OperateUserRoleType(r.Intn(2))}
		return op{cq.App("MRbac", "KOperateUserRole", N(stamp), L([]string{"user=" + req.Username, "role=" + req.RoleName, "type=" + req.Type.String()})), fail, opMsg(stamp, &msgstream.OperateUserRoleMsg{BaseMsg: bm(ts), OperateUserRoleRequest: req})}
	case 21:
		req := &milvuspb.OperatePrivilegeRequest{Base: srcBase(commonpb.MsgType_OperatePrivilege), Type: milvuspb.OperatePrivilegeType(r.Intn(2)),
			Entity: &milvuspb.GrantEntity{Role: &milvuspb.RoleEntity{Name: randName(r)}, Object: &milvuspb.ObjectEntity{Name: "Collection"}, ObjectName: randName(r), DbName: randName(r),
				Grantor: &milvuspb.GrantorEntity{User: &milvuspb.UserEntity{Name: randName(r)}, Privilege: &milvuspb.PrivilegeEntity{Name: "Insert"}}}}
		return op{cq.App("MRbac", "KOperatePrivilege", N(stamp), L(wfake.PrivPay(req))), fail, opMsg(stamp, &msgstream.OperatePrivilegeMsg{BaseMsg: bm(ts), OperatePrivilegeRequest: req})}
	case 22:
		return op{"PackEmpty", false, func(w api.Writer) error {
			_, err := w.HandleOpMessagePack(context.Background(), pack(stamp))
			return err
		}}
	case 23:
		m := &msgstream.CreateDatabaseMsg{BaseMsg: bm(ts), CreateDatabaseRequest: &milvuspb.CreateDatabaseRequest{Base: srcBase(commonpb.MsgType_CreateDatabase), DbName: "twice"}}
		return op{"PackTwo", false, func(w api.Writer) error {
			_, err := w.HandleOpMessagePack(context.Background(), pack(stamp, m, m))
			return err
		}}
	default:
		m := &msgstream.TimeTickMsg{BaseMsg: bm(ts), TimeTickMsg: &msgpb.TimeTickMsg{Base: srcBase(commonpb.MsgType_TimeTick)}}
		return op{"PackUnknown", false, opMsg(stamp, m)}
	}
}

const nKinds = 25

func runCase(o *cq.Out, e *caseEnv, ops []op) {
	h := &wfake.Handler{DBs: map[string]bool{}, Colls: map[[2]string]bool{}, Parts: map[[3]string]bool{}}
	for _, d := range e.dbs {
		h.DBs[d] = true
	}
	for _, c := range e.colls {
		h.Colls[c] = true
	}
	for _, p := range e.parts {
		h.Parts[p] = true
	}
	dropped := map[string]map[string]uint64{util.DroppedDatabaseKey: e.tdb, util.DroppedCollectionKey: e.tcoll, util.DroppedPartitionKey: e.tpart}
	ds := "milvus"
	if !e.milvus {
		ds = "kafka"
	}
	w := writer.NewChannelWriter(h, fakeMeta{}, config.WriterConfig{MessageBufferSize: 4, Retry: config.RetrySettings{RetryTimes: 1, InitBackOff: 1, MaxBackOff: 1}, ReplicateID: e.rid}, dropped, ds)
	nm := map[string]string{}
	for _, m := range e.nm {
		nm[util.GetFullCollectionName(m[1], m[0])] = util.GetFullCollectionName(m[3], m[2])
	}
	if e.warm {
		// while nothing exists downstream every operation stops at its readiness probe: the writer learns nothing but has
		// resolved every source name once
		wr := rand.New(rand.NewSource(1))
		dbs, colls, parts := h.DBs, h.Colls, h.Parts
		h.DBs, h.Colls, h.Parts = map[string]bool{}, map[[2]string]bool{}, map[[3]string]bool{}
		for _, db := range srcDBs {
			for _, c := range srcColls {
				_ = genOp(wr, e, 12, db, c, nil, 1, 1, false, false).run(w)
			}
		}
		h.DBs, h.Colls, h.Parts = dbs, colls, parts
		h.FailNext = false
		h.Calls = nil
	}
	w.(*writer.ChannelWriter).UpdateNameMappings(nm)
	var opTerms, obsTerms []string
	ncalls := 0
	for _, p := range ops {
		h.Calls = nil
		h.FailNext = p.fail
		err := p.run(w)
		h.FailNext = false
		ncalls += len(h.Calls)
		opTerms = append(opTerms, cq.Pair(p.term, cq.Bool(p.fail)))
		obsTerms = append(obsTerms, fmt.Sprintf("{| so_calls := %s; so_ok := %s |}", cq.MapList(h.Calls, func(c wfake.Call) string { return c.Term() }), cq.Bool(err == nil)))
	}
	o.Add(fmt.Sprintf("{| c_env := %s; c_dbs := %s; c_colls := %s; c_parts := %s; c_ops := %s; c_obs := %s |}",
		envTerm(e), tblTerm(e.tdb), tblTerm(e.tcoll), tblTerm(e.tpart), cq.List(opTerms), cq.List(obsTerms)))
	for _, p := range ops {
		o.Count("op:" + strings.Fields(strings.Trim(p.term, "("))[0])
	}
	o.Count(fmt.Sprintf("mapping-entries=%d", len(e.nm)))
	if ncalls >= 2 {
		o.NonTrivial(strings.Join(opTerms, ";") + envTerm(e))
	}
	o.Sample(map[string]interface{}{"env": envTerm(e), "ops": opTerms, "observed": obsTerms})
}

func randEnv(r *rand.Rand, shape int) *caseEnv {
	e := &caseEnv{milvus: r.Intn(12) != 0, nm: mappingShape(shape), tdb: map[string]uint64{}, tcoll: map[string]uint64{}, tpart: map[string]uint64{}}
	if r.Intn(3) == 0 {
		e.rid = "rid-1"
	}
	// which source objects exist downstream (under their mapped names)
	for _, db := range srcDBs[1:] {
		tdb, _ := mapNames(e.nm, db, "")
		if r.Intn(4) != 0 {
			e.dbs = append(e.dbs, tdb)
		}
		for _, c := range srcColls {
			tdb, tc := mapNames(e.nm, db, c)
			if r.Intn(3) != 0 {
				e.colls = append(e.colls, [2]string{tdb, tc})
			}
			for _, p := range srcParts {
				if r.Intn(3) != 0 {
					e.parts = append(e.parts, [3]string{tdb, tc, p})
				}
			}
		}
	}
	// start-up snapshot of dropped objects (C15) and a few recorded creations
	for _, db := range []string{"db1", "db2"} {
		if r.Intn(5) == 0 {
			_, dk := util.GetDBInfoKeys(db)
			e.tdb[dk] = uint64(1 + r.Intn(20))
		}
	}
	for _, db := range srcDBs {
		for _, c := range srcColls {
			if r.Intn(5) == 0 {
				ck, dk := util.GetCollectionInfoKeys(c, db)
				e.tcoll[dk] = uint64(1 + r.Intn(20))
				if r.Intn(3) == 0 {
					e.tcoll[ck] = uint64(1 + r.Intn(20))
				}
			}
			for _, p := range srcParts {
				if r.Intn(6) == 0 {
					_, dk := util.GetPartitionInfoKeys(p, c, db)
					e.tpart[dk] = uint64(1 + r.Intn(20))
				}
			}
		}
	}
	return e
}

func main() {
	a := hx.Parse()
	imp := map[string]string{"c08": "From Verif Require Import Writer.Model C08.Check.", "c09": "From Verif Require Import Writer.Model C09.Check.", "c20": "From Verif Require Import Writer.Model C20.Check."}[*mode]
	o := cq.NewOut(a.Out, imp, "case", 250)
	r := a.Rng
	if *mode == "c09" {
		// the whole table: every kind x source db x mapping shape (fresh writer each), then random histories
		for shape := 0; shape <= 6; shape++ {
			for _, db := range srcDBs {
				for kind := 0; kind < 22; kind++ {
					for _, fail := range []bool{false, true} {
						e := randEnv(r, shape)
						e.milvus = true
						runCase(o, e, []op{genOp(r, e, kind, db, "c1", []string{"p1", "p2"}, 10, 11, fail, false)})
					}
				}
			}
		}
		o.Extra["exhaustive_part"] = "22 operation kinds x 4 source databases x 7 mapping shapes x {ok, failing downstream call}"
	}
	if *mode == "c20" {
		// corpus: witness of the known finding C20-schema-attrs (a nullable field with a default value) runs first
		e := randEnv(r, 0)
		e.milvus = true
		runCase(o, e, []op{genOp(r, e, 0, "", "c1", nil, 10, 10, false, true)})
	}
	if *mode == "c08" {
		// corpus: a LoadPartitions naming one partition recorded dropped after the op's time and one live partition
		e := &caseEnv{milvus: true, tdb: map[string]uint64{}, tcoll: map[string]uint64{}, tpart: map[string]uint64{"default_c1_p1_d": 100}}
		e.colls = [][2]string{{"default", "c1"}}
		e.parts = [][3]string{{"default", "c1", "p1"}, {"default", "c1", "p2"}}
		runCase(o, e, []op{genOp(r, e, 13, "", "c1", []string{"p1", "p2"}, 90, 90, false, false), genOp(r, e, 14, "", "c1", []string{"p1", "p2"}, 90, 90, true, false)})
	}
	for n := 0; n < a.N; n++ {
		e := randEnv(r, r.Intn(7))
		e.warm = *mode == "c09" && r.Intn(2) == 0
		nops := 1 + r.Intn(8)
		var ops []op
		for i := 0; i < nops; i++ {
			kind := r.Intn(nKinds)
			if *mode == "c08" && r.Intn(3) != 0 {
				kind = []int{1, 2, 3, 5, 7, 8, 9, 11, 12, 13, 14}[r.Intn(11)]
			}
			db := srcDBs[r.Intn(len(srcDBs))]
			coll := srcColls[r.Intn(len(srcColls))]
			parts := []string{srcParts[r.Intn(2)]}
			if r.Intn(2) == 0 {
				parts = append(parts, srcParts[r.Intn(2)])
			}
			ts := uint64(1 + r.Intn(22))
			stamp := ts
			if r.Intn(3) == 0 {
				stamp = uint64(1 + r.Intn(30))
			}
			ops = append(ops, genOp(r, e, kind, db, coll, parts, ts, stamp, r.Intn(4) == 0, *mode == "c20" && r.Intn(10) == 0))
		}
		runCase(o, e, ops)
	}
	if err := o.Flush(); err != nil {
		panic(err)
	}
}
