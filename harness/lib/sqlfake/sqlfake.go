// Package sqlfake is a database/sql driver that implements exactly the statement shapes server/store issues against MySQL
// (CREATE TABLE IF NOT EXISTS, INSERT ... ON DUPLICATE KEY UPDATE, SELECT cols FROM t WHERE preds, DELETE FROM t WHERE preds,
// BEGIN / COMMIT / ROLLBACK) with MySQL's LIKE: '%' any string, '_' any one character, '\' escapes the next character.
// Predicates: col LIKE 'literal', col LIKE ?, col = ?, joined by AND.  Rows are returned in primary-key order.
package sqlfake

import (
	"database/sql"
	"database/sql/driver"
	"fmt"
	"io"
	"regexp"
	"sort"
	"strings"
	"sync"
)

type Row map[string]any

type Engine struct {
	mu     sync.Mutex
	Tables map[string][]Row
	pk     map[string]string
	snap   map[string][]Row
	Log    []string
}

func NewEngine() *Engine {
	return &Engine{Tables: map[string][]Row{}, pk: map[string]string{"task_info": "task_info_key", "task_position": "task_position_key", "task_msg": "task_msg_key"}}
}

// Like is MySQL's LIKE with the default escape character.
func Like(s, pat string) bool {
	p, x := []byte(pat), []byte(s)
	var m func(i, j int) bool
	m = func(i, j int) bool {
		if i == len(p) {
			return j == len(x)
		}
		switch p[i] {
		case '%':
			for k := j; k <= len(x); k++ {
				if m(i+1, k) {
					return true
				}
			}
			return false
		case '_':
			return j < len(x) && m(i+1, j+1)
		case '\\':
			if i+1 < len(p) {
				return j < len(x) && x[j] == p[i+1] && m(i+2, j+1)
			}
			return j+1 == len(x) && x[j] == '\\'
		default:
			return j < len(x) && x[j] == p[i] && m(i+1, j+1)
		}
	}
	return m(0, 0)
}

var (
	reInsert  = regexp.MustCompile(`(?s)^INSERT INTO (\w+) \(([^)]*)\) VALUES \(([^)]*)\) ON DUPLICATE KEY UPDATE (.*)$`)
	reSelect  = regexp.MustCompile(`(?s)^SELECT (.*) FROM (\w+) WHERE (.*)$`)
	reDelete  = regexp.MustCompile(`(?s)^DELETE FROM (\w+) WHERE (.*)$`)
	reLikeLit = regexp.MustCompile(`(?s)^(\w+) LIKE '(.*)'$`)
	reLikeArg = regexp.MustCompile(`^(\w+) LIKE \?$`)
	reEqArg   = regexp.MustCompile(`^(\w+) = \?$`)
)

type cond struct {
	col, op, lit string
}

func parseWhere(w string) []cond {
	var cs []cond
	for _, p := range strings.Split(w, " AND ") {
		p = strings.TrimSpace(p)
		if m := reLikeLit.FindStringSubmatch(p); m != nil {
			cs = append(cs, cond{col: m[1], op: "likelit", lit: m[2]})
		} else if m := reLikeArg.FindStringSubmatch(p); m != nil {
			cs = append(cs, cond{col: m[1], op: "like"})
		} else if m := reEqArg.FindStringSubmatch(p); m != nil {
			cs = append(cs, cond{col: m[1], op: "="})
		} else {
			panic("sqlfake: unsupported predicate: " + p)
		}
	}
	return cs
}

func match(r Row, cs []cond, args []driver.Value) bool {
	i := 0
	for _, c := range cs {
		switch c.op {
		case "likelit":
			if !Like(fmt.Sprint(r[c.col]), c.lit) {
				return false
			}
		case "like":
			if !Like(fmt.Sprint(r[c.col]), fmt.Sprint(args[i])) {
				return false
			}
			i++
		case "=":
			if fmt.Sprint(r[c.col]) != fmt.Sprint(args[i]) {
				return false
			}
			i++
		}
	}
	return true
}

func (e *Engine) exec(q string, args []driver.Value) (int64, error) {
	q = strings.TrimSpace(q)
	e.mu.Lock()
	defer e.mu.Unlock()
	e.Log = append(e.Log, q)
	if strings.HasPrefix(q, "CREATE TABLE") {
		return 0, nil
	}
	if m := reInsert.FindStringSubmatch(q); m != nil {
		t := m[1]
		cols := strings.Split(strings.ReplaceAll(m[2], " ", ""), ",")
		r := Row{}
		for i, c := range cols {
			r[c] = args[i]
		}
		upd := strings.Split(m[4], ",")
		for i, ex := range e.Tables[t] {
			if ex[e.pk[t]] == r[e.pk[t]] {
				for j, u := range upd {
					col := strings.TrimSpace(strings.Split(u, "=")[0])
					e.Tables[t][i][col] = args[len(cols)+j]
				}
				return 1, nil
			}
		}
		e.Tables[t] = append(e.Tables[t], r)
		return 1, nil
	}
	if m := reDelete.FindStringSubmatch(q); m != nil {
		cs := parseWhere(m[2])
		var keep []Row
		n := int64(0)
		for _, r := range e.Tables[m[1]] {
			if match(r, cs, args) {
				n++
			} else {
				keep = append(keep, r)
			}
		}
		e.Tables[m[1]] = keep
		return n, nil
	}
	panic("sqlfake: unsupported exec: " + q)
}

func (e *Engine) sorted(t string) []Row {
	rs := append([]Row{}, e.Tables[t]...)
	sort.Slice(rs, func(i, j int) bool { return fmt.Sprint(rs[i][e.pk[t]]) < fmt.Sprint(rs[j][e.pk[t]]) })
	return rs
}

// Dump returns the rows of a table in primary-key order.
func (e *Engine) Dump(t string) []Row {
	e.mu.Lock()
	defer e.mu.Unlock()
	return e.sorted(t)
}

func (e *Engine) query(q string, args []driver.Value) (driver.Rows, error) {
	q = strings.TrimSpace(q)
	e.mu.Lock()
	defer e.mu.Unlock()
	e.Log = append(e.Log, q)
	m := reSelect.FindStringSubmatch(q)
	if m == nil {
		panic("sqlfake: unsupported query: " + q)
	}
	cols := strings.Split(strings.ReplaceAll(m[1], " ", ""), ",")
	cs := parseWhere(m[3])
	var out [][]driver.Value
	for _, r := range e.sorted(m[2]) {
		if match(r, cs, args) {
			var vs []driver.Value
			for _, c := range cols {
				vs = append(vs, r[c])
			}
			out = append(out, vs)
		}
	}
	return &rows{cols: cols, data: out}, nil
}

func (e *Engine) begin() {
	e.mu.Lock()
	defer e.mu.Unlock()
	e.snap = map[string][]Row{}
	for t, rs := range e.Tables {
		for _, r := range rs {
			c := Row{}
			for k, v := range r {
				c[k] = v
			}
			e.snap[t] = append(e.snap[t], c)
		}
	}
}
func (e *Engine) commit() { e.mu.Lock(); e.snap = nil; e.mu.Unlock() }
func (e *Engine) rollback() {
	e.mu.Lock()
	defer e.mu.Unlock()
	if e.snap != nil {
		e.Tables = e.snap
		e.snap = nil
	}
}

type rows struct {
	cols []string
	data [][]driver.Value
	i    int
}

func (r *rows) Columns() []string { return r.cols }
func (r *rows) Close() error      { return nil }
func (r *rows) Next(d []driver.Value) error {
	if r.i >= len(r.data) {
		return io.EOF
	}
	copy(d, r.data[r.i])
	r.i++
	return nil
}

type drv struct{}
type conn struct{ e *Engine }
type stmt struct {
	e *Engine
	q string
}
type tx struct{ e *Engine }

var (
	regMu   sync.Mutex
	engines = map[string]*Engine{}
	once    sync.Once
)

func (drv) Open(name string) (driver.Conn, error) {
	regMu.Lock()
	defer regMu.Unlock()
	return conn{engines[name]}, nil
}
func (c conn) Prepare(q string) (driver.Stmt, error) { return stmt{c.e, q}, nil }
func (c conn) Close() error                          { return nil }
func (c conn) Begin() (driver.Tx, error)             { c.e.begin(); return tx{c.e}, nil }
func (t tx) Commit() error                           { t.e.commit(); return nil }
func (t tx) Rollback() error                         { t.e.rollback(); return nil }
func (s stmt) Close() error                          { return nil }
func (s stmt) NumInput() int                         { return -1 }
func (s stmt) Exec(a []driver.Value) (driver.Result, error) {
	n, err := s.e.exec(s.q, a)
	return driver.RowsAffected(n), err
}
func (s stmt) Query(a []driver.Value) (driver.Rows, error) { return s.e.query(s.q, a) }

// Open returns a *sql.DB served by the given engine.
func Open(name string, e *Engine) *sql.DB {
	once.Do(func() { sql.Register("sqlfake", drv{}) })
	regMu.Lock()
	engines[name] = e
	regMu.Unlock()
	db, err := sql.Open("sqlfake", name)
	if err != nil {
		panic(err)
	}
	return db
}
