// Package cq emits Coq (Gallina) literals and whole cases.v shards for the correspondence check.
package cq

import (
	"encoding/json"
	"fmt"
	"os"
	"path/filepath"
	"sort"
	"strings"
)

// Str renders a Go string as a Coq string literal (in string_scope).
// Non-printable bytes are not representable inside a literal; they are emitted through String/Ascii constructors.
func Str(s string) string {
	simple := true
	for i := 0; i < len(s); i++ {
		if s[i] < 32 || s[i] > 126 {
			simple = false
			break
		}
	}
	if simple {
		return "\"" + strings.ReplaceAll(s, "\"", "\"\"") + "\"%string"
	}
	var b strings.Builder
	n := 0
	for i := 0; i < len(s); i++ {
		fmt.Fprintf(&b, "(String (Ascii.ascii_of_N %d%%N) ", s[i])
		n++
	}
	b.WriteString("EmptyString")
	b.WriteString(strings.Repeat(")", n))
	return b.String()
}

func N(v uint64) string { return fmt.Sprintf("%d%%N", v) }
func Ni(v int) string   { return fmt.Sprintf("%d%%N", v) }
func Nat(v int) string  { return fmt.Sprintf("%d%%nat", v) }
func Z(v int64) string {
	if v < 0 {
		return fmt.Sprintf("(%d)%%Z", v)
	}
	return fmt.Sprintf("%d%%Z", v)
}
func Bool(b bool) string {
	if b {
		return "true"
	}
	return "false"
}
func List(xs []string) string { return "[" + strings.Join(xs, "; ") + "]" }
func Pair(a, b string) string { return "(" + a + ", " + b + ")" }
func Some(a string) string    { return "(Some " + a + ")" }
func App(f string, args ...string) string {
	return "(" + f + " " + strings.Join(args, " ") + ")"
}
func Strs(xs []string) string {
	o := make([]string, len(xs))
	for i, x := range xs {
		o[i] = Str(x)
	}
	return List(o)
}
func MapList[T any](xs []T, f func(T) string) string {
	o := make([]string, len(xs))
	for i, x := range xs {
		o[i] = f(x)
	}
	return List(o)
}

// Out collects cases and writes shards + stats.
type Out struct {
	Dir      string
	Imports  string // e.g. "From Verif Require Import C16.Model."
	CaseType string // Coq type of one case
	PerShard int
	Prefix   string
	IDBase   int
	cases    []string
	Hist     map[string]int // input-distribution histogram
	Samples  []interface{}
	Nontriv  map[string]bool // distinct non-trivial case digests
	Extra    map[string]interface{}
}

// NewOut: with VERIF_SHARD_PREFIX=<p> (a second harness writing into the directory of the property's main harness) the shards
// are cases_<p><k>.v, the statistics go to stats_<p>.json and case ids start at VERIF_ID_BASE.
func NewOut(dir, imports, caseType string, perShard int) *Out {
	_ = os.MkdirAll(dir, 0o755)
	prefix := os.Getenv("VERIF_SHARD_PREFIX")
	base := 0
	fmt.Sscan(os.Getenv("VERIF_ID_BASE"), &base)
	old, _ := filepath.Glob(filepath.Join(dir, "cases_"+prefix+"*.v"))
	for _, f := range old {
		_ = os.Remove(f)
	}
	return &Out{Dir: dir, Imports: imports, CaseType: caseType, PerShard: perShard, Prefix: prefix, IDBase: base,
		Hist: map[string]int{}, Nontriv: map[string]bool{}, Extra: map[string]interface{}{}}
}

func (o *Out) Add(term string) int    { o.cases = append(o.cases, term); return len(o.cases) - 1 }
func (o *Out) Count(k string)         { o.Hist[k]++ }
func (o *Out) CountN(k string, n int) { o.Hist[k] += n }
func (o *Out) Sample(v interface{}) {
	if len(o.Samples) < 5 {
		o.Samples = append(o.Samples, v)
	}
}
func (o *Out) NonTrivial(digest string) { o.Nontriv[digest] = true }

// Flush writes cases_<k>.v shards and stats.json.
func (o *Out) Flush() error {
	shard := 0
	for i := 0; i < len(o.cases); i += o.PerShard {
		j := i + o.PerShard
		if j > len(o.cases) {
			j = len(o.cases)
		}
		var b strings.Builder
		b.WriteString("From Coq Require Import List String NArith ZArith Bool Ascii.\nImport ListNotations.\n")
		b.WriteString(o.Imports + "\n")
		fmt.Fprintf(&b, "Definition cases : list (N * %s) := [\n", o.CaseType)
		for k := i; k < j; k++ {
			sep := ";"
			if k == j-1 {
				sep = ""
			}
			fmt.Fprintf(&b, " (%d%%N, %s)%s\n", k+o.IDBase, o.cases[k], sep)
		}
		b.WriteString("].\n")
		b.WriteString("Definition MM := Eval vm_compute in mismatches cases.\n")
		b.WriteString("Definition CF := Eval vm_compute in checkfails cases.\n")
		b.WriteString("Definition KF := Eval vm_compute in knownclass cases.\n")
		b.WriteString("Set Printing Width 1000000.\nSet Printing Depth 1000000.\n")
		b.WriteString("Print MM.\nPrint CF.\nPrint KF.\n")
		if err := os.WriteFile(filepath.Join(o.Dir, fmt.Sprintf("cases_%s%d.v", o.Prefix, shard)), []byte(b.String()), 0o644); err != nil {
			return err
		}
		shard++
	}
	keys := make([]string, 0, len(o.Hist))
	for k := range o.Hist {
		keys = append(keys, k)
	}
	sort.Strings(keys)
	st := map[string]interface{}{
		"cases": len(o.cases), "shards": shard, "histogram": o.Hist,
		"distinct_nontrivial": len(o.Nontriv), "samples": o.Samples, "extra": o.Extra,
	}
	buf, _ := json.MarshalIndent(st, "", " ")
	name := "stats.json"
	if o.Prefix != "" {
		name = "stats_" + o.Prefix + ".json"
	}
	return os.WriteFile(filepath.Join(o.Dir, name), buf, 0o644)
}

// CaseText returns the Coq term of case i (for replay files).
func (o *Out) CaseText(i int) string { return o.cases[i] }
