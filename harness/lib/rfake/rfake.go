// Package rfake holds the fakes used to drive reader.NewReplicateChannelManager (seam L1 of DESIGN.md):
// a msgdispatcher.Client whose per-vchannel streams the harness feeds, a msgstream.Factory that only answers
// the connection check, a target API with scripted partition answers, a source catalog and message builders.
package rfake

import (
	"time"
	"context"
	"errors"
	"fmt"
	"sync"

	"github.com/milvus-io/milvus-proto/go-api/v2/commonpb"
	"github.com/milvus-io/milvus-proto/go-api/v2/milvuspb"
	"github.com/milvus-io/milvus-proto/go-api/v2/msgpb"
	"github.com/milvus-io/milvus-proto/go-api/v2/schemapb"
	"github.com/milvus-io/milvus/pkg/mq/common"
	"github.com/milvus-io/milvus/pkg/mq/msgdispatcher"
	"github.com/milvus-io/milvus/pkg/mq/msgstream"

	"github.com/zilliztech/milvus-cdc/core/api"
	"github.com/zilliztech/milvus-cdc/core/model"
)

// ---------------------------------------------------------------- dispatcher
type Dispatch struct {
	mu     sync.Mutex
	chans  map[string]chan *msgstream.MsgPack
	regs   map[string][]chan *msgstream.MsgPack // every live registration of a virtual channel (a deregistration ends them)
	Seeks  map[string]*msgpb.MsgPosition
	Closed map[string]bool
	Events []string
	// Gate, when set, is called at the start of every Register (the harness uses it to hold a registration: the real call
	// creates a consumer on the message queue)
	Gate func(v string)
}

func NewDispatch() *Dispatch {
	return &Dispatch{chans: map[string]chan *msgstream.MsgPack{}, Seeks: map[string]*msgpb.MsgPosition{}, Closed: map[string]bool{}}
}

func (f *Dispatch) Register(ctx context.Context, c *msgdispatcher.StreamConfig) (<-chan *msgstream.MsgPack, error) {
	if g := f.Gate; g != nil {
		g(c.VChannel)
	}
	f.mu.Lock()
	defer f.mu.Unlock()
	ch := make(chan *msgstream.MsgPack)
	f.chans[c.VChannel] = ch
	if f.regs == nil {
		f.regs = map[string][]chan *msgstream.MsgPack{}
	}
	f.regs[c.VChannel] = append(f.regs[c.VChannel], ch)
	f.Seeks[c.VChannel] = c.Pos
	f.Events = append(f.Events, "register "+c.VChannel)
	return ch, nil
}

func (f *Dispatch) Deregister(v string) {
	f.mu.Lock()
	defer f.mu.Unlock()
	f.Closed[v] = true
	f.regs[v] = nil
	f.Events = append(f.Events, "deregister "+v)
}
func (f *Dispatch) Close() {}
func (f *Dispatch) Registered(v string) bool {
	f.mu.Lock()
	defer f.mu.Unlock()
	_, ok := f.chans[v]
	return ok
}

// Extras: the registrations of a virtual channel other than the latest one (a real dispatcher delivers every pack to each)
func (f *Dispatch) Extras(v string) []chan *msgstream.MsgPack {
	f.mu.Lock()
	defer f.mu.Unlock()
	r := f.regs[v]
	if len(r) <= 1 {
		return nil
	}
	return append([]chan *msgstream.MsgPack{}, r[:len(r)-1]...)
}

func (f *Dispatch) Chan(v string) chan *msgstream.MsgPack {
	f.mu.Lock()
	defer f.mu.Unlock()
	return f.chans[v]
}

// ---------------------------------------------------------------- factory (connection check only)
type fakeStream struct{ msgstream.MsgStream }

func (s *fakeStream) Close() {}
func (s *fakeStream) AsConsumer(ctx context.Context, channels []string, subName string, position common.SubscriptionInitialPosition) error {
	return nil
}

func (s *fakeStream) Seek(ctx context.Context, msgPositions []*msgstream.MsgPosition, includeCurrentMsg bool) error {
	return nil
}

type Factory struct{}

func (Factory) NewMsgStream(ctx context.Context) (msgstream.MsgStream, error) {
	return &fakeStream{}, nil
}
func (Factory) NewTtMsgStream(ctx context.Context) (msgstream.MsgStream, error) {
	return &fakeStream{}, nil
}
func (Factory) NewMsgStreamDisposer(ctx context.Context) func([]string, string) error { return nil }

// ---------------------------------------------------------------- target
type TColl struct {
	ID     int64
	VChs   []string
	PChs   []string
	Parts  map[string]int64
	Exists bool
}

type Target struct {
	*api.DefaultTargetAPI
	mu      sync.Mutex
	Colls   map[string]*TColl             // by collection name
	Answers map[string][]map[string]int64 // scripted answers of GetPartitionInfo per collection name; nil entry = error
	Calls   int
	// Meet > 1: every GetCollectionInfo call returns only when Meet callers have arrived (or after a grace period): two
	// notifications of one collection are kept abreast of each other
	Meet    int
	arrived int
	gate    chan struct{}
}

func NewTarget() *Target {
	return &Target{DefaultTargetAPI: &api.DefaultTargetAPI{}, Colls: map[string]*TColl{}, Answers: map[string][]map[string]int64{}}
}

func (t *Target) GetCollectionInfo(ctx context.Context, c, d string) (*model.CollectionInfo, error) {
	t.mu.Lock()
	if t.Meet > 1 {
		if t.gate == nil {
			t.gate = make(chan struct{})
		}
		g := t.gate
		t.arrived++
		if t.arrived >= t.Meet {
			t.arrived = 0
			t.gate = nil
			close(g)
		}
		t.mu.Unlock()
		select {
		case <-g:
		case <-time.After(40 * time.Millisecond):
		}
		t.mu.Lock()
	}
	defer t.mu.Unlock()
	tc, ok := t.Colls[c]
	if !ok || !tc.Exists {
		return nil, errors.New("collection not found")
	}
	p := map[string]int64{}
	for k, v := range tc.Parts {
		p[k] = v
	}
	return &model.CollectionInfo{DatabaseName: d, CollectionID: tc.ID, CollectionName: c, VChannels: append([]string{}, tc.VChs...),
		PChannels: append([]string{}, tc.PChs...), Partitions: p}, nil
}

func (t *Target) GetPartitionInfo(ctx context.Context, c, d string) (*model.CollectionInfo, error) {
	t.mu.Lock()
	defer t.mu.Unlock()
	t.Calls++
	q := t.Answers[c]
	if len(q) == 0 {
		return nil, errors.New("no answer scripted")
	}
	a := q[0]
	t.Answers[c] = q[1:]
	if a == nil {
		return nil, errors.New("scripted failure")
	}
	p := map[string]int64{}
	for k, v := range a {
		p[k] = v
	}
	return &model.CollectionInfo{Partitions: p}, nil
}
func (t *Target) GetDatabaseName(ctx context.Context, c, d string) (string, error) { return d, nil }

// ---------------------------------------------------------------- catalog
type MetaOp struct{ *api.DefaultMetaOp }

func (MetaOp) GetDatabaseInfoForCollection(ctx context.Context, id int64) model.DatabaseInfo {
	return model.DatabaseInfo{ID: 1, Name: "default"}
}

// ---------------------------------------------------------------- replicate meta store
type MemStore struct {
	mu sync.Mutex
	M  map[string]api.MetaMsg
	// Gate, when set, is called at the start of every Put (the harness uses it to hold a write)
	Gate func(key string)
}

func (s *MemStore) Get(ctx context.Context, key string, withPrefix bool) ([]api.MetaMsg, error) {
	return nil, nil
}

func (s *MemStore) Put(ctx context.Context, key string, value api.MetaMsg) error {
	if s.Gate != nil {
		s.Gate(key)
	}
	s.mu.Lock()
	defer s.mu.Unlock()
	if s.M == nil {
		s.M = map[string]api.MetaMsg{}
	}
	s.M[key] = value
	return nil
}
func (s *MemStore) Remove(ctx context.Context, key string) error { return nil }

// ---------------------------------------------------------------- messages
func pos(vch string, id uint64, ts uint64) *msgpb.MsgPosition {
	return &msgpb.MsgPosition{ChannelName: vch, MsgID: []byte{byte(id >> 8), byte(id)}, Timestamp: ts}
}
func base(ts uint64, vch string, id uint64) msgstream.BaseMsg {
	return msgstream.BaseMsg{BeginTimestamp: ts, EndTimestamp: ts, HashValues: []uint32{0}, MsgPosition: pos(vch, id, ts)}
}

func Insert(id uint64, ts uint64, vch string, coll, part int64, pname, cname string, rows int) msgstream.TsMsg {
	tss := make([]uint64, rows)
	ids := make([]int64, rows)
	pks := make([]int64, rows)
	for i := range tss {
		tss[i] = ts
		ids[i] = int64(id)*1000 + int64(i)
		pks[i] = int64(id)*7 + int64(i)
	}
	return &msgstream.InsertMsg{BaseMsg: base(ts, vch, id), InsertRequest: &msgpb.InsertRequest{
		Base: &commonpb.MsgBase{MsgType: commonpb.MsgType_Insert, Timestamp: ts, MsgID: int64(id)}, CollectionID: coll, PartitionID: part,
		PartitionName: pname, CollectionName: cname, DbName: "default", ShardName: vch, Timestamps: tss, RowIDs: ids, NumRows: uint64(rows),
		Version: msgpb.InsertDataVersion_ColumnBased,
		FieldsData: []*schemapb.FieldData{{Type: schemapb.DataType_Int64, FieldName: "pk", FieldId: 100,
			Field: &schemapb.FieldData_Scalars{Scalars: &schemapb.ScalarField{Data: &schemapb.ScalarField_LongData{LongData: &schemapb.LongArray{Data: pks}}}}}},
	}}
}

func Delete(id uint64, ts uint64, vch string, coll, part int64, pname, cname string, rows int) msgstream.TsMsg {
	tss := make([]uint64, rows)
	pks := make([]int64, rows)
	for i := range tss {
		tss[i] = ts
		pks[i] = int64(id)*7 + int64(i)
	}
	return &msgstream.DeleteMsg{BaseMsg: base(ts, vch, id), DeleteRequest: &msgpb.DeleteRequest{
		Base: &commonpb.MsgBase{MsgType: commonpb.MsgType_Delete, Timestamp: ts, MsgID: int64(id)}, CollectionID: coll, PartitionID: part,
		PartitionName: pname, CollectionName: cname, DbName: "default", ShardName: vch, Timestamps: tss, NumRows: int64(rows),
		PrimaryKeys: &schemapb.IDs{IdField: &schemapb.IDs_IntId{IntId: &schemapb.LongArray{Data: pks}}},
	}}
}

func DropPartition(id uint64, ts uint64, vch string, coll, part int64, pname, cname string) msgstream.TsMsg {
	return &msgstream.DropPartitionMsg{BaseMsg: base(ts, vch, id), DropPartitionRequest: &msgpb.DropPartitionRequest{
		Base: &commonpb.MsgBase{MsgType: commonpb.MsgType_DropPartition, Timestamp: ts, MsgID: int64(id)}, CollectionID: coll, PartitionID: part,
		PartitionName: pname, CollectionName: cname, DbName: "default"}}
}

func DropCollection(id uint64, ts uint64, vch string, coll int64, cname string) msgstream.TsMsg {
	return &msgstream.DropCollectionMsg{BaseMsg: base(ts, vch, id), DropCollectionRequest: &msgpb.DropCollectionRequest{
		Base: &commonpb.MsgBase{MsgType: commonpb.MsgType_DropCollection, Timestamp: ts, MsgID: int64(id)}, CollectionID: coll,
		CollectionName: cname, DbName: "default"}}
}

func CreatePartition(id uint64, ts uint64, vch string, coll, part int64, pname, cname string) msgstream.TsMsg {
	return &msgstream.CreatePartitionMsg{BaseMsg: base(ts, vch, id), CreatePartitionRequest: &msgpb.CreatePartitionRequest{
		Base: &commonpb.MsgBase{MsgType: commonpb.MsgType_CreatePartition, Timestamp: ts, MsgID: int64(id)}, CollectionID: coll, PartitionID: part,
		PartitionName: pname, CollectionName: cname, DbName: "default"}}
}

func CreateCollection(id uint64, ts uint64, vch string, coll int64, cname string) msgstream.TsMsg {
	return &msgstream.CreateCollectionMsg{BaseMsg: base(ts, vch, id), CreateCollectionRequest: &msgpb.CreateCollectionRequest{
		Base: &commonpb.MsgBase{MsgType: commonpb.MsgType_CreateCollection, Timestamp: ts, MsgID: int64(id)}, CollectionID: coll,
		CollectionName: cname, DbName: "default"}}
}

func Import(id uint64, ts uint64, vch string, coll int64, parts []int64, cname string) msgstream.TsMsg {
	return &msgstream.ImportMsg{BaseMsg: base(ts, vch, id), ImportMsg: &msgpb.ImportMsg{
		Base: &commonpb.MsgBase{MsgType: commonpb.MsgType_Import, Timestamp: ts, MsgID: int64(id)}, CollectionID: coll,
		CollectionName: cname, DbName: "default", PartitionIDs: parts, JobID: int64(id)}}
}

func Tick(ts uint64, vch string) msgstream.TsMsg {
	return &msgstream.TimeTickMsg{BaseMsg: base(ts, vch, 0), TimeTickMsg: &msgpb.TimeTickMsg{Base: &commonpb.MsgBase{MsgType: commonpb.MsgType_TimeTick, Timestamp: ts}}}
}

func Flush(id uint64, ts uint64, vch string, coll int64) msgstream.TsMsg {
	return &msgstream.FlushMsg{BaseMsg: base(ts, vch, id), FlushRequest: &milvuspb.FlushRequest{
		Base: &commonpb.MsgBase{MsgType: commonpb.MsgType_Flush, Timestamp: ts, MsgID: int64(id)}, CollectionNames: []string{fmt.Sprint(coll)}}}
}

func Pack(begin, end uint64, vch string, startID, endID uint64, nstart int, msgs ...msgstream.TsMsg) *msgstream.MsgPack {
	p := &msgstream.MsgPack{BeginTs: begin, EndTs: end, Msgs: msgs}
	for i := 0; i < nstart; i++ {
		p.StartPositions = append(p.StartPositions, pos(vch, startID, begin))
	}
	p.EndPositions = []*msgpb.MsgPosition{pos(vch, endID, end)}
	return p
}
