// Package efake starts an embedded etcd server (the real go.etcd.io/etcd/server/v3) on free local ports in a scratch
// directory and hands out a client; used as the source catalog (C13, C15) and as the metadata backend (C12).
package efake

import (
	"fmt"
	"net"
	"net/url"
	"os"
	"time"

	clientv3 "go.etcd.io/etcd/client/v3"
	"go.etcd.io/etcd/server/v3/embed"
)

type Etcd struct {
	E        *embed.Etcd
	Dir      string
	Endpoint string
	Cli      *clientv3.Client
}

func freePort() int {
	l, err := net.Listen("tcp", "127.0.0.1:0")
	if err != nil {
		panic(err)
	}
	defer l.Close()
	return l.Addr().(*net.TCPAddr).Port
}

func Start() *Etcd {
	dir, err := os.MkdirTemp("", "verif-etcd")
	if err != nil {
		panic(err)
	}
	cfg := embed.NewConfig()
	cfg.Dir = dir
	cfg.LogLevel = "error"
	cfg.UnsafeNoFsync = true
	cp, pp := freePort(), freePort()
	lc, _ := url.Parse(fmt.Sprintf("http://127.0.0.1:%d", cp))
	lp, _ := url.Parse(fmt.Sprintf("http://127.0.0.1:%d", pp))
	cfg.LCUrls, cfg.ACUrls, cfg.LPUrls, cfg.APUrls = []url.URL{*lc}, []url.URL{*lc}, []url.URL{*lp}, []url.URL{*lp}
	cfg.InitialCluster = cfg.InitialClusterFromName(cfg.Name)
	e, err := embed.StartEtcd(cfg)
	if err != nil {
		os.RemoveAll(dir)
		panic(err)
	}
	select {
	case <-e.Server.ReadyNotify():
	case <-time.After(30 * time.Second):
		e.Close()
		os.RemoveAll(dir)
		panic("embedded etcd did not become ready")
	}
	ep := fmt.Sprintf("127.0.0.1:%d", cp)
	cli, err := clientv3.New(clientv3.Config{Endpoints: []string{ep}, DialTimeout: 5 * time.Second})
	if err != nil {
		panic(err)
	}
	return &Etcd{E: e, Dir: dir, Endpoint: ep, Cli: cli}
}

func (x *Etcd) Stop() {
	x.Cli.Close()
	x.E.Close()
	os.RemoveAll(x.Dir)
}
