// Package hx: common command-line handling for the per-property harness commands.
package hx

import (
	"flag"
	"math/rand"
	"os"
	"strconv"
)

type Args struct {
	Seed int64
	N    int
	Out  string
	Tier string
	Rng  *rand.Rand
}

func Parse() *Args {
	a := &Args{}
	flag.Int64Var(&a.Seed, "seed", 0, "PRNG seed (every random choice derives from it)")
	flag.IntVar(&a.N, "n", 100, "number of generated cases")
	flag.StringVar(&a.Out, "out", "", "output directory for cases_*.v and stats.json")
	flag.StringVar(&a.Tier, "tier", "quick", "quick|thorough")
	flag.Parse()
	if a.Out == "" {
		os.Stderr.WriteString("missing -out\n")
		os.Exit(2)
	}
	if s := os.Getenv("VERIF_SEED"); s != "" && a.Seed == 0 {
		a.Seed, _ = strconv.ParseInt(s, 10, 64)
	}
	a.Rng = rand.New(rand.NewSource(a.Seed))
	return a
}
