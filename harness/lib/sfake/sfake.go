// Package sfake holds the fakes used to drive server.MetaCDC (seam L3a of DESIGN.md): a durable
// in-memory meta store with per-operation fault switches and an event log, a fake channel manager the
// harness feeds with labelled packs, a fake source catalog, a recording writer and a no-op dispatcher.
package sfake

import (
	"runtime"
	"context"
	"encoding/json"
	"errors"
	"fmt"
	"sort"
	"sync"

	"github.com/milvus-io/milvus-proto/go-api/v2/commonpb"
	"github.com/milvus-io/milvus-proto/go-api/v2/msgpb"
	"github.com/milvus-io/milvus-proto/go-api/v2/schemapb"
	"github.com/milvus-io/milvus/pkg/mq/msgdispatcher"
	"github.com/milvus-io/milvus/pkg/mq/msgstream"

	"github.com/zilliztech/milvus-cdc/core/api"
	coremodel "github.com/zilliztech/milvus-cdc/core/model"
	"github.com/zilliztech/milvus-cdc/core/pb"
	serverapi "github.com/zilliztech/milvus-cdc/server/api"
	"github.com/zilliztech/milvus-cdc/server/model/meta"
)

// ---------------------------------------------------------------- durable world

// Event is one externally visible step, in the order it took effect.
type Event struct {
	Clock int
	Kind  string // task.put task.del pos.put pos.del txn.commit ack write.fail api.event op.pack start stop addpart ...
	Key   string
	Val   string
	OK    bool
}

type World struct {
	Mu     sync.Mutex
	Tasks  map[string][]byte
	Pos    map[string][]byte
	Msgs   map[string]api.MetaMsg
	Clock  int
	Log    []Event
	failAt map[string]int // op kind -> number of calls of that kind until the failing one (1 = the next call)
	Epoch  int            // incarnation allowed to touch durable state
	// crash point: after this many further durable effects (a checkpoint write, a downstream acknowledgement of an event) the
	// running incarnation is dead - Epoch moves on and the fakes stop answering it (0 = not armed)
	crashIn int
	Crashes int // crash points reached so far
	// ExitDead: a goroutine of a dead incarnation that calls a fake is ended (runtime.Goexit) instead of being parked for ever
	ExitDead bool
	// CrashKinds: the event kinds a crash point counts (nil: pos.put and event.ack)
	CrashKinds map[string]bool
}

func NewWorld() *World {
	return &World{Tasks: map[string][]byte{}, Pos: map[string][]byte{}, Msgs: map[string]api.MetaMsg{}, failAt: map[string]int{}}
}

// FailNext arms a fault: the n-th upcoming call of this kind fails (n=1: the next one).
func (w *World) FailNext(kind string, n int) {
	w.Mu.Lock()
	defer w.Mu.Unlock()
	w.failAt[kind] = n
}

func (w *World) ClearFaults() {
	w.Mu.Lock()
	defer w.Mu.Unlock()
	w.failAt = map[string]int{}
}

// must hold Mu
func (w *World) fault(kind string) bool {
	n, ok := w.failAt[kind]
	if !ok || n <= 0 {
		return false
	}
	n--
	if n == 0 {
		delete(w.failAt, kind)
		return true
	}
	w.failAt[kind] = n
	return false
}

// must hold Mu
func (w *World) ev(kind, key, val string, ok bool) {
	w.Clock++
	w.Log = append(w.Log, Event{Clock: w.Clock, Kind: kind, Key: key, Val: val, OK: ok})
	if w.crashIn > 0 && ok && w.durable(kind) {
		w.crashIn--
		if w.crashIn == 0 {
			w.Epoch++
			w.Crashes++
		}
	}
}

// the effects a crash point counts: CrashKinds, or by default a checkpoint write and a downstream acknowledgement of an event
func (w *World) durable(kind string) bool {
	if w.CrashKinds != nil {
		return w.CrashKinds[kind]
	}
	return kind == "pos.put" || kind == "event.ack"
}

// CrashAfter arms a crash point: the incarnation dies right after its n-th further durable effect (n = 0: now).
func (w *World) CrashAfter(n int) {
	w.Mu.Lock()
	defer w.Mu.Unlock()
	if n == 0 {
		w.Epoch++
		w.Crashes++
		return
	}
	w.crashIn = n
}

func (w *World) ClearCrash() {
	w.Mu.Lock()
	defer w.Mu.Unlock()
	w.crashIn = 0
}

func (w *World) CrashCount() int {
	w.Mu.Lock()
	defer w.Mu.Unlock()
	return w.Crashes
}

func (w *World) Record(kind, key, val string, ok bool) {
	w.Mu.Lock()
	defer w.Mu.Unlock()
	w.ev(kind, key, val, ok)
}

func (w *World) LogLen() int {
	w.Mu.Lock()
	defer w.Mu.Unlock()
	return len(w.Log)
}

func (w *World) LogFrom(i int) []Event {
	w.Mu.Lock()
	defer w.Mu.Unlock()
	return append([]Event{}, w.Log[i:]...)
}

var ErrInjected = errors.New("injected store failure")

// fenced blocks a caller of a dead incarnation forever (it can no longer touch durable state).
func (w *World) fenced(epoch int) {
	w.Mu.Lock()
	dead := epoch != w.Epoch
	w.Mu.Unlock()
	if dead {
		if w.ExitDead {
			// the goroutine ends here; what it has deferred runs (it may hold a process-wide lock of the code under test)
			runtime.Goexit()
		}
		select {}
	}
}

func PosKey(task string, coll int64) string { return fmt.Sprintf("%s/%d", task, coll) }

type txn struct {
	ops []func()
}

type Factory struct {
	W     *World
	Epoch int
}

type taskStore struct{ f *Factory }
type posStore struct{ f *Factory }
type msgStore struct{ f *Factory }

func (f *Factory) GetTaskInfoMetaStore(ctx context.Context) serverapi.MetaStore[*meta.TaskInfo] {
	return taskStore{f}
}

func (f *Factory) GetTaskCollectionPositionMetaStore(ctx context.Context) serverapi.MetaStore[*meta.TaskCollectionPosition] {
	return posStore{f}
}
func (f *Factory) GetReplicateStore(ctx context.Context) api.ReplicateStore { return msgStore{f} }
func (f *Factory) Txn(ctx context.Context) (any, func(err error) error, error) {
	f.W.fenced(f.Epoch)
	w := f.W
	w.Mu.Lock()
	defer w.Mu.Unlock()
	if w.fault("txn.begin") {
		return nil, nil, ErrInjected
	}
	t := &txn{}
	commit := func(err error) error {
		f.W.fenced(f.Epoch)
		if err != nil {
			return err
		}
		w.Mu.Lock()
		defer w.Mu.Unlock()
		if w.fault("txn.commit") {
			w.ev("txn.commit", "", "", false)
			return ErrInjected
		}
		for _, op := range t.ops {
			op()
		}
		w.ev("txn.commit", "", "", true)
		return nil
	}
	return t, commit, nil
}

func (s taskStore) Put(ctx context.Context, o *meta.TaskInfo, tx any) error {
	s.f.W.fenced(s.f.Epoch)
	w := s.f.W
	w.Mu.Lock()
	defer w.Mu.Unlock()
	if w.fault("task.put") {
		w.ev("task.put", o.TaskID, "", false)
		return ErrInjected
	}
	b, _ := json.Marshal(o)
	w.Tasks[o.TaskID] = b
	w.ev("task.put", o.TaskID, fmt.Sprintf("%d|%s", o.State, o.Reason), true)
	return nil
}

func (s taskStore) Get(ctx context.Context, o *meta.TaskInfo, tx any) ([]*meta.TaskInfo, error) {
	s.f.W.fenced(s.f.Epoch)
	w := s.f.W
	w.Mu.Lock()
	defer w.Mu.Unlock()
	if w.fault("task.get") {
		return nil, ErrInjected
	}
	var ks []string
	for k := range w.Tasks {
		ks = append(ks, k)
	}
	sort.Strings(ks)
	var r []*meta.TaskInfo
	for _, k := range ks {
		if o.TaskID != "" && k != o.TaskID {
			continue
		}
		var t meta.TaskInfo
		_ = json.Unmarshal(w.Tasks[k], &t)
		r = append(r, &t)
	}
	return r, nil
}

func (s taskStore) Delete(ctx context.Context, o *meta.TaskInfo, tx any) error {
	s.f.W.fenced(s.f.Epoch)
	w := s.f.W
	w.Mu.Lock()
	defer w.Mu.Unlock()
	if w.fault("task.del") {
		return ErrInjected
	}
	id := o.TaskID
	op := func() {
		delete(w.Tasks, id)
		w.ev("task.del", id, "", true)
	}
	if t, ok := tx.(*txn); ok && t != nil {
		t.ops = append(t.ops, op)
	} else {
		op()
	}
	return nil
}

func posVal(o *meta.TaskCollectionPosition) string {
	var ks []string
	for ch, p := range o.Positions {
		d := ""
		if p != nil {
			d = fmt.Sprintf("%x@%d/%d", p.DataPair.GetData(), p.Time, p.StartTime)
			if p.Dropped {
				d += "!"
			}
		}
		ks = append(ks, ch+"="+d)
	}
	sort.Strings(ks)
	return fmt.Sprint(ks)
}

func (s posStore) Put(ctx context.Context, o *meta.TaskCollectionPosition, tx any) error {
	s.f.W.fenced(s.f.Epoch)
	w := s.f.W
	w.Mu.Lock()
	defer w.Mu.Unlock()
	k := PosKey(o.TaskID, o.CollectionID)
	if w.fault("pos.put") {
		w.ev("pos.put", k, "", false)
		return ErrInjected
	}
	b, _ := json.Marshal(o)
	w.Pos[k] = b
	w.ev("pos.put", k, posVal(o), true)
	return nil
}

func (s posStore) Get(ctx context.Context, o *meta.TaskCollectionPosition, tx any) ([]*meta.TaskCollectionPosition, error) {
	s.f.W.fenced(s.f.Epoch)
	w := s.f.W
	w.Mu.Lock()
	defer w.Mu.Unlock()
	if w.fault("pos.get") {
		return nil, ErrInjected
	}
	var ks []string
	for k := range w.Pos {
		ks = append(ks, k)
	}
	sort.Strings(ks)
	var r []*meta.TaskCollectionPosition
	for _, k := range ks {
		var t meta.TaskCollectionPosition
		_ = json.Unmarshal(w.Pos[k], &t)
		if o.TaskID != "" && t.TaskID != o.TaskID {
			continue
		}
		if o.CollectionID != 0 && t.CollectionID != o.CollectionID {
			continue
		}
		r = append(r, &t)
	}
	return r, nil
}

func (s posStore) Delete(ctx context.Context, o *meta.TaskCollectionPosition, tx any) error {
	s.f.W.fenced(s.f.Epoch)
	w := s.f.W
	w.Mu.Lock()
	defer w.Mu.Unlock()
	if w.fault("pos.del") {
		return ErrInjected
	}
	task, coll := o.TaskID, o.CollectionID
	op := func() {
		for k, b := range w.Pos {
			var t meta.TaskCollectionPosition
			_ = json.Unmarshal(b, &t)
			if t.TaskID == task && (coll == 0 || t.CollectionID == coll) {
				delete(w.Pos, k)
			}
		}
		w.ev("pos.del", PosKey(task, coll), "", true)
	}
	if t, ok := tx.(*txn); ok && t != nil {
		t.ops = append(t.ops, op)
	} else {
		op()
	}
	return nil
}

func (s msgStore) Get(ctx context.Context, key string, withPrefix bool) ([]api.MetaMsg, error) {
	return nil, nil
}
func (s msgStore) Put(ctx context.Context, key string, value api.MetaMsg) error { return nil }
func (s msgStore) Remove(ctx context.Context, key string) error                 { return nil }

// TaskStates returns id -> (state, reason) as persisted.
func (w *World) TaskInfos() map[string]*meta.TaskInfo {
	w.Mu.Lock()
	defer w.Mu.Unlock()
	r := map[string]*meta.TaskInfo{}
	for k, b := range w.Tasks {
		var t meta.TaskInfo
		_ = json.Unmarshal(b, &t)
		r[k] = &t
	}
	return r
}

func (w *World) Positions() map[string]*meta.TaskCollectionPosition {
	w.Mu.Lock()
	defer w.Mu.Unlock()
	r := map[string]*meta.TaskCollectionPosition{}
	for k, b := range w.Pos {
		var t meta.TaskCollectionPosition
		_ = json.Unmarshal(b, &t)
		r[k] = &t
	}
	return r
}

// ---------------------------------------------------------------- channel manager

type CM struct {
	*api.DefaultChannelManager
	W      *World
	ChanCh chan string
	mu     sync.Mutex
	msgCh  map[string]chan *api.ReplicateMsg
	EvCh   chan *api.ReplicateAPIEvent
	// FailStart makes StartReadCollection of these collection ids fail
	FailStart map[int64]bool
	// Gate, when set, is called by StartReadCollection after the start has been recorded and before it returns
	// (the real call takes long: it looks the collection up downstream with retries); the harness uses it to hold a start
	Gate func(id int64)
}

func NewCM(w *World) *CM {
	return &CM{DefaultChannelManager: &api.DefaultChannelManager{}, W: w, ChanCh: make(chan string, 64),
		msgCh: map[string]chan *api.ReplicateMsg{}, EvCh: make(chan *api.ReplicateAPIEvent, 64), FailStart: map[int64]bool{}}
}

func (c *CM) SetCtx(ctx context.Context) {}
func (c *CM) Chan(p string) chan *api.ReplicateMsg {
	c.mu.Lock()
	defer c.mu.Unlock()
	ch, ok := c.msgCh[p]
	if !ok {
		ch = make(chan *api.ReplicateMsg, 256)
		c.msgCh[p] = ch
	}
	return ch
}

func (c *CM) StartReadCollection(ctx context.Context, db *coremodel.DatabaseInfo, info *pb.CollectionInfo, seek []*msgpb.MsgPosition, st map[string]uint64) error {
	var ss []string
	for _, p := range seek {
		ss = append(ss, fmt.Sprintf("%s=%x@%d", p.ChannelName, p.MsgID, p.Timestamp))
	}
	sort.Strings(ss)
	var ts []string
	for k, v := range st {
		ts = append(ts, fmt.Sprintf("%s=%d", k, v))
	}
	sort.Strings(ts)
	task, _ := ctx.Value(taskKey{}).(string)
	_ = task
	c.W.Record("start", fmt.Sprintf("%d", info.ID), fmt.Sprint(ss)+fmt.Sprint(ts), true)
	if g := c.Gate; g != nil {
		g(info.ID)
	}
	if c.FailStart[info.ID] {
		return errors.New("injected start failure")
	}
	return nil
}

type taskKey struct{}

func (c *CM) StopReadCollection(ctx context.Context, info *pb.CollectionInfo) error {
	c.W.Record("stop", fmt.Sprintf("%d", info.ID), "", true)
	return nil
}

func (c *CM) AddPartition(ctx context.Context, db *coremodel.DatabaseInfo, ci *pb.CollectionInfo, pi *pb.PartitionInfo) error {
	c.W.Record("addpart", fmt.Sprintf("%d/%d", ci.ID, pi.PartitionID), "", true)
	return nil
}
func (c *CM) GetChannelChan() <-chan string                { return c.ChanCh }
func (c *CM) GetMsgChan(p string) <-chan *api.ReplicateMsg { return c.Chan(p) }
func (c *CM) GetEventChan() <-chan *api.ReplicateAPIEvent  { return c.EvCh }
func (c *CM) AddDroppedCollection(ids []int64)             {}
func (c *CM) AddDroppedPartition(ids []int64)              {}
func (c *CM) GetChannelLatestMsgID(ctx context.Context, channelName string) ([]byte, error) {
	return nil, nil
}

// ---------------------------------------------------------------- source catalog

func kd(k string, d []byte) *commonpb.KeyDataPair { return &commonpb.KeyDataPair{Key: k, Data: d} }

type Coll struct {
	ID    int64
	DB    string
	DBID  int64
	Name  string
	PChs  []string
	VChs  []string
	Start [][]byte
	CTime uint64
}

type MetaOp struct {
	*api.DefaultMetaOp
	Colls []Coll
	// W, when set, gets a record "unsub" for every UnsubscribeEvent
	W    *World
	smu  sync.Mutex
	subs map[string]api.CollectionEventConsumer
}

// the subscription table of the real EtcdOp: one consumer per task, an event is offered until one consumer takes it
func (m *MetaOp) SubscribeCollectionEvent(taskID string, c api.CollectionEventConsumer) {
	m.smu.Lock()
	defer m.smu.Unlock()
	if m.subs == nil {
		m.subs = map[string]api.CollectionEventConsumer{}
	}
	m.subs[taskID] = c
}

func (m *MetaOp) UnsubscribeEvent(taskID string, t api.WatchEventType) {
	m.smu.Lock()
	if t == api.CollectionEventType {
		delete(m.subs, taskID)
	}
	m.smu.Unlock()
	if m.W != nil {
		m.W.Record("unsub", taskID, fmt.Sprint(int(t)), true)
	}
}

// Deliver offers a created collection to the subscribers the way the etcd watcher does (in the caller's goroutine)
func (m *MetaOp) Deliver(c Coll) bool {
	m.smu.Lock()
	var ks []string
	for k := range m.subs {
		ks = append(ks, k)
	}
	sort.Strings(ks)
	var cs []api.CollectionEventConsumer
	for _, k := range ks {
		cs = append(cs, m.subs[k])
	}
	m.smu.Unlock()
	for _, f := range cs {
		if f != nil && f(m.info(c)) {
			return true
		}
	}
	return false
}

func (m *MetaOp) info(c Coll) *pb.CollectionInfo {
	ci := &pb.CollectionInfo{ID: c.ID, Schema: &schemapb.CollectionSchema{Name: c.Name}, DbId: c.DBID, CreateTime: c.CTime,
		VirtualChannelNames: c.VChs, PhysicalChannelNames: c.PChs, State: pb.CollectionState_CollectionCreated}
	for i, p := range c.PChs {
		d := []byte{0}
		if i < len(c.Start) {
			d = c.Start[i]
		}
		ci.StartPositions = append(ci.StartPositions, kd(p, d))
	}
	return ci
}

// Info is the catalog record of a collection as the source reports it
func (m *MetaOp) Info(c Coll) *pb.CollectionInfo { return m.info(c) }

func (m *MetaOp) GetAllCollection(ctx context.Context, f api.CollectionFilter) ([]*pb.CollectionInfo, error) {
	var r []*pb.CollectionInfo
	for _, c := range m.Colls {
		r = append(r, m.info(c))
	}
	return r, nil
}

func (m *MetaOp) GetAllPartition(ctx context.Context, f api.PartitionFilter) ([]*pb.PartitionInfo, error) {
	return nil, nil
}

func (m *MetaOp) GetDatabaseInfoForCollection(ctx context.Context, id int64) coremodel.DatabaseInfo {
	for _, c := range m.Colls {
		if c.ID == id {
			return coremodel.DatabaseInfo{ID: c.DBID, Name: c.DB}
		}
	}
	return coremodel.DatabaseInfo{ID: 1, Name: "default"}
}

func (m *MetaOp) GetCollectionNameByID(ctx context.Context, id int64) string {
	for _, c := range m.Colls {
		if c.ID == id {
			return c.Name
		}
	}
	return ""
}
func (m *MetaOp) GetAllDroppedObj() map[string]map[string]uint64 {
	return map[string]map[string]uint64{}
}

// ---------------------------------------------------------------- writer

type Writer struct {
	*api.DefaultWriter
	W *World
	// Fence: the writer belongs to incarnation Epoch and stops answering once that one is dead
	Fence bool
	Epoch int
}

// FailNext kinds: "write" (HandleReplicateMessage), "event" (HandleReplicateAPIEvent), "op" (HandleOpMessagePack)
func (w *Writer) HandleReplicateMessage(ctx context.Context, ch string, p *msgstream.MsgPack) ([]byte, []byte, error) {
	id := fmt.Sprintf("%x", p.EndPositions[len(p.EndPositions)-1].MsgID)
	w.W.Mu.Lock()
	defer w.W.Mu.Unlock()
	if w.W.fault("write") {
		w.W.ev("write.fail", ch, id, false)
		return nil, nil, errors.New("injected downstream failure")
	}
	w.W.ev("ack", ch, fmt.Sprintf("%s@%d", id, p.EndTs), true)
	return p.EndPositions[len(p.EndPositions)-1].MsgID, []byte("t" + id), nil
}

func (w *Writer) HandleReplicateAPIEvent(ctx context.Context, e *api.ReplicateAPIEvent) error {
	if w.Fence {
		w.W.fenced(w.Epoch)
	}
	w.W.Mu.Lock()
	defer w.W.Mu.Unlock()
	key := fmt.Sprintf("%s/%d", e.EventType.String(), e.CollectionInfo.GetID())
	if w.W.fault("event") {
		w.W.ev("event.fail", key, e.TaskID, false)
		return errors.New("injected downstream ddl failure")
	}
	w.W.ev("event.ack", key, e.TaskID, true)
	return nil
}

func (w *Writer) HandleOpMessagePack(ctx context.Context, p *msgstream.MsgPack) ([]byte, error) {
	w.W.Mu.Lock()
	defer w.W.Mu.Unlock()
	if w.W.fault("op") {
		w.W.ev("op.fail", "", "", false)
		return nil, errors.New("injected downstream op failure")
	}
	w.W.ev("op.ack", "", "", true)
	return p.EndPositions[len(p.EndPositions)-1].MsgID, nil
}
func (w *Writer) RecoveryMetaMsg(ctx context.Context, taskID string) error { return nil }

// ---------------------------------------------------------------- dispatcher

type Disp struct {
	W  *World
	mu sync.Mutex
	ch map[string]chan *msgstream.MsgPack
}

func NewDisp(w *World) *Disp { return &Disp{W: w, ch: map[string]chan *msgstream.MsgPack{}} }
func (d *Disp) Register(ctx context.Context, c *msgdispatcher.StreamConfig) (<-chan *msgstream.MsgPack, error) {
	d.mu.Lock()
	defer d.mu.Unlock()
	ch := make(chan *msgstream.MsgPack, 16)
	d.ch[c.VChannel] = ch
	pos := ""
	if c.Pos != nil {
		pos = fmt.Sprintf("%x@%d", c.Pos.MsgID, c.Pos.Timestamp)
	}
	d.W.Record("register", c.VChannel, pos, true)
	return ch, nil
}

func (d *Disp) Deregister(v string) {
	d.W.Record("deregister", v, "", true)
}
func (d *Disp) Close() {}
func (d *Disp) Feed(v string, p *msgstream.MsgPack) bool {
	d.mu.Lock()
	ch := d.ch[v]
	d.mu.Unlock()
	if ch == nil {
		return false
	}
	ch <- p
	return true
}
