// Package wfake: a recording fake of api.DataHandler and helpers to render calls as Coq terms (Writer.Model.call).
package wfake

import (
	"context"
	"errors"
	"fmt"
	"sort"
	"strings"

	"github.com/milvus-io/milvus-proto/go-api/v2/commonpb"
	"github.com/milvus-io/milvus-proto/go-api/v2/milvuspb"
	"github.com/milvus-io/milvus-proto/go-api/v2/schemapb"
	"github.com/milvus-io/milvus/pkg/util/retry"

	"github.com/zilliztech/milvus-cdc/core/api"

	"verifharness/lib/cq"
)

type Call struct {
	Kind  string
	Route string
	DB    string
	Coll  string
	Names []string
	Pay   []string
	Ts    uint64
	Rep   bool
}

func (c Call) Term() string {
	return fmt.Sprintf("{| k_kind := %s; k_route := %s; k_db := %s; k_coll := %s; k_names := %s; k_pay := %s; k_ts := %s; k_rep := %s |}",
		c.Kind, cq.Str(c.Route), cq.Str(c.DB), cq.Str(c.Coll), cq.Strs(c.Names), cq.Strs(c.Pay), cq.N(c.Ts), cq.Bool(c.Rep))
}

// Handler records every call; the Describe* probes answer from the existence sets; the next non-probe call
// fails when FailNext is set.
type Handler struct {
	api.DefaultDataHandler
	Calls    []Call
	FailNext bool
	DBs      map[string]bool
	Colls    map[[2]string]bool
	Parts    map[[3]string]bool
}

var ErrInjected = errors.New("injected downstream failure")

func (h *Handler) rec(c Call) error {
	h.Calls = append(h.Calls, c)
	if h.FailNext {
		h.FailNext = false
		return ErrInjected
	}
	return nil
}

func base(b *commonpb.MsgBase) (uint64, bool) {
	if b == nil || b.ReplicateInfo == nil {
		return 0, false
	}
	return b.ReplicateInfo.MsgTimestamp, b.ReplicateInfo.IsReplicate
}

func KV(kvs []*commonpb.KeyValuePair) []string {
	out := make([]string, 0, len(kvs))
	for _, kv := range kvs {
		out = append(out, kv.GetKey()+"="+kv.GetValue())
	}
	return out
}

// SchemaPay renders the identity of a collection schema (without its name, which is subject to the name mapping).
func SchemaPay(s *schemapb.CollectionSchema) []string {
	out := []string{"desc=" + s.GetDescription(), fmt.Sprintf("autoid=%v", s.GetAutoID()), fmt.Sprintf("dynamic=%v", s.GetEnableDynamicField())}
	for _, f := range s.GetFields() {
		tp := KV(f.GetTypeParams())
		sort.Strings(tp)
		ip := KV(f.GetIndexParams())
		sort.Strings(ip)
		out = append(out, fmt.Sprintf("field:%s:%d:%s:pk=%v:auto=%v:desc=%s:dyn=%v:pkey=%v:ckey=%v:elem=%s:tp=%s:ip=%s:nullable=%v:default=%v:fnout=%v",
			f.GetName(), f.GetFieldID(), f.GetDataType().String(), f.GetIsPrimaryKey(), f.GetAutoID(), f.GetDescription(), f.GetIsDynamic(),
			f.GetIsPartitionKey(), f.GetIsClusteringKey(), f.GetElementType().String(), strings.Join(tp, ","), strings.Join(ip, ","),
			f.GetNullable(), f.GetDefaultValue() != nil, f.GetIsFunctionOutput()))
	}
	out = append(out, fmt.Sprintf("functions=%d", len(s.GetFunctions())))
	return out
}

func (h *Handler) CreateCollection(ctx context.Context, p *api.CreateCollectionParam) error {
	ts, rep := base(p.Base)
	pay := SchemaPay(p.Schema.ProtoMessage())
	pay = append(pay, fmt.Sprintf("shards=%d", p.ShardsNum), "consistency="+p.ConsistencyLevel.String())
	pay = append(pay, KV(p.Properties)...)
	return h.rec(Call{Kind: "KCreateCollection", Route: p.Database, Coll: p.Schema.CollectionName, Pay: pay, Ts: ts, Rep: rep})
}

func (h *Handler) DropCollection(ctx context.Context, p *api.DropCollectionParam) error {
	ts, rep := base(p.Base)
	return h.rec(Call{Kind: "KDropCollection", Route: p.Database, Coll: p.CollectionName, Ts: ts, Rep: rep})
}

func (h *Handler) CreatePartition(ctx context.Context, p *api.CreatePartitionParam) error {
	ts, rep := base(p.Base)
	return h.rec(Call{Kind: "KCreatePartition", Route: p.Database, Coll: p.CollectionName, Names: []string{p.PartitionName}, Ts: ts, Rep: rep})
}

func (h *Handler) DropPartition(ctx context.Context, p *api.DropPartitionParam) error {
	ts, rep := base(p.Base)
	return h.rec(Call{Kind: "KDropPartition", Route: p.Database, Coll: p.CollectionName, Names: []string{p.PartitionName}, Ts: ts, Rep: rep})
}

func (h *Handler) Flush(ctx context.Context, p *api.FlushParam) error {
	ts, rep := base(p.GetBase())
	return h.rec(Call{Kind: "KFlush", Route: p.Database, DB: p.GetDbName(), Names: p.GetCollectionNames(), Ts: ts, Rep: rep})
}

func LoadCollPay(r *milvuspb.LoadCollectionRequest) []string {
	return []string{fmt.Sprintf("replica=%d", r.GetReplicaNumber()), "rg=" + strings.Join(r.GetResourceGroups(), ","), fmt.Sprintf("refresh=%v", r.GetRefresh())}
}

func (h *Handler) LoadCollection(ctx context.Context, p *api.LoadCollectionParam) error {
	ts, rep := base(p.GetBase())
	return h.rec(Call{Kind: "KLoadCollection", Route: p.Database, DB: p.GetDbName(), Coll: p.GetCollectionName(), Pay: LoadCollPay(p.LoadCollectionRequest), Ts: ts, Rep: rep})
}

func (h *Handler) ReleaseCollection(ctx context.Context, p *api.ReleaseCollectionParam) error {
	ts, rep := base(p.GetBase())
	return h.rec(Call{Kind: "KReleaseCollection", Route: p.Database, DB: p.GetDbName(), Coll: p.GetCollectionName(), Ts: ts, Rep: rep})
}

func (h *Handler) LoadPartitions(ctx context.Context, p *api.LoadPartitionsParam) error {
	ts, rep := base(p.GetBase())
	return h.rec(Call{Kind: "KLoadPartitions", Route: p.Database, DB: p.GetDbName(), Coll: p.GetCollectionName(), Names: p.GetPartitionNames(),
		Pay: []string{fmt.Sprintf("replica=%d", p.GetReplicaNumber())}, Ts: ts, Rep: rep})
}

func (h *Handler) ReleasePartitions(ctx context.Context, p *api.ReleasePartitionsParam) error {
	ts, rep := base(p.GetBase())
	return h.rec(Call{Kind: "KReleasePartitions", Route: p.Database, DB: p.GetDbName(), Coll: p.GetCollectionName(), Names: p.GetPartitionNames(), Ts: ts, Rep: rep})
}

func CreateIndexPay(r *milvuspb.CreateIndexRequest) []string {
	return append([]string{"index=" + r.GetIndexName(), "field=" + r.GetFieldName()}, KV(r.GetExtraParams())...)
}

func (h *Handler) CreateIndex(ctx context.Context, p *api.CreateIndexParam) error {
	ts, rep := base(p.GetBase())
	return h.rec(Call{Kind: "KCreateIndex", Route: p.Database, DB: p.GetDbName(), Coll: p.GetCollectionName(), Pay: CreateIndexPay(p.CreateIndexRequest), Ts: ts, Rep: rep})
}

func (h *Handler) DropIndex(ctx context.Context, p *api.DropIndexParam) error {
	ts, rep := base(p.GetBase())
	return h.rec(Call{Kind: "KDropIndex", Route: p.Database, DB: p.GetDbName(), Coll: p.GetCollectionName(),
		Pay: []string{"index=" + p.GetIndexName(), "field=" + p.GetFieldName()}, Ts: ts, Rep: rep})
}

func AlterIndexPay(r *milvuspb.AlterIndexRequest) []string {
	return append([]string{"index=" + r.GetIndexName()}, KV(r.GetExtraParams())...)
}

func (h *Handler) AlterIndex(ctx context.Context, p *api.AlterIndexParam) error {
	ts, rep := base(p.GetBase())
	return h.rec(Call{Kind: "KAlterIndex", Route: p.Database, DB: p.GetDbName(), Coll: p.GetCollectionName(), Pay: AlterIndexPay(p.AlterIndexRequest), Ts: ts, Rep: rep})
}

func (h *Handler) CreateDatabase(ctx context.Context, p *api.CreateDatabaseParam) error {
	ts, rep := base(p.GetBase())
	return h.rec(Call{Kind: "KCreateDatabase", Route: p.Database, DB: p.GetDbName(), Ts: ts, Rep: rep})
}

func (h *Handler) DropDatabase(ctx context.Context, p *api.DropDatabaseParam) error {
	ts, rep := base(p.GetBase())
	return h.rec(Call{Kind: "KDropDatabase", Route: p.Database, DB: p.GetDbName(), Ts: ts, Rep: rep})
}

func (h *Handler) AlterDatabase(ctx context.Context, p *api.AlterDatabaseParam) error {
	ts, rep := base(p.GetBase())
	return h.rec(Call{Kind: "KAlterDatabase", Route: p.Database, DB: p.GetDbName(), Pay: KV(p.GetProperties()), Ts: ts, Rep: rep})
}

func (h *Handler) DescribeDatabase(ctx context.Context, p *api.DescribeDatabaseParam) error {
	h.Calls = append(h.Calls, Call{Kind: "KDescribeDatabase", Route: p.Database, DB: p.Name})
	if h.DBs[p.Name] {
		return nil
	}
	return retry.Unrecoverable(errors.New("database not found"))
}

func (h *Handler) DescribeCollection(ctx context.Context, p *api.DescribeCollectionParam) error {
	h.Calls = append(h.Calls, Call{Kind: "KDescribeCollection", Route: p.Database, Coll: p.Name})
	if h.Colls[[2]string{p.Database, p.Name}] {
		return nil
	}
	return retry.Unrecoverable(errors.New("collection not found"))
}

func (h *Handler) DescribePartition(ctx context.Context, p *api.DescribePartitionParam) error {
	h.Calls = append(h.Calls, Call{Kind: "KDescribePartition", Route: p.Database, Coll: p.CollectionName, Names: []string{p.PartitionName}})
	if h.Parts[[3]string{p.Database, p.CollectionName, p.PartitionName}] {
		return nil
	}
	return retry.Unrecoverable(errors.New("partition not found"))
}

func (h *Handler) CreateUser(ctx context.Context, p *api.CreateUserParam) error {
	ts, rep := base(p.GetBase())
	return h.rec(Call{Kind: "KCreateUser", Route: p.Database, Pay: []string{"user=" + p.GetUsername(), "pw=" + p.GetPassword()}, Ts: ts, Rep: rep})
}

func (h *Handler) DeleteUser(ctx context.Context, p *api.DeleteUserParam) error {
	ts, rep := base(p.GetBase())
	return h.rec(Call{Kind: "KDeleteUser", Route: p.Database, Pay: []string{"user=" + p.GetUsername()}, Ts: ts, Rep: rep})
}

func (h *Handler) UpdateUser(ctx context.Context, p *api.UpdateUserParam) error {
	ts, rep := base(p.GetBase())
	return h.rec(Call{Kind: "KUpdateUser", Route: p.Database, Pay: []string{"user=" + p.GetUsername(), "old=" + p.GetOldPassword(), "new=" + p.GetNewPassword()}, Ts: ts, Rep: rep})
}

func (h *Handler) CreateRole(ctx context.Context, p *api.CreateRoleParam) error {
	ts, rep := base(p.GetBase())
	return h.rec(Call{Kind: "KCreateRole", Route: p.Database, Pay: []string{"role=" + p.GetEntity().GetName()}, Ts: ts, Rep: rep})
}

func (h *Handler) DropRole(ctx context.Context, p *api.DropRoleParam) error {
	ts, rep := base(p.GetBase())
	return h.rec(Call{Kind: "KDropRole", Route: p.Database, Pay: []string{"role=" + p.GetRoleName()}, Ts: ts, Rep: rep})
}

func (h *Handler) OperateUserRole(ctx context.Context, p *api.OperateUserRoleParam) error {
	ts, rep := base(p.GetBase())
	return h.rec(Call{Kind: "KOperateUserRole", Route: p.Database, Pay: []string{"user=" + p.GetUsername(), "role=" + p.GetRoleName(), "type=" + p.GetType().String()}, Ts: ts, Rep: rep})
}

func PrivPay(r *milvuspb.OperatePrivilegeRequest) []string {
	e := r.GetEntity()
	return []string{"role=" + e.GetRole().GetName(), "object=" + e.GetObject().GetName(), "objname=" + e.GetObjectName(),
		"grantor=" + e.GetGrantor().GetUser().GetName(), "priv=" + e.GetGrantor().GetPrivilege().GetName(), "db=" + e.GetDbName(), "type=" + r.GetType().String()}
}

func (h *Handler) OperatePrivilege(ctx context.Context, p *api.OperatePrivilegeParam) error {
	ts, rep := base(p.GetBase())
	return h.rec(Call{Kind: "KOperatePrivilege", Route: p.Database, Pay: PrivPay(p.OperatePrivilegeRequest), Ts: ts, Rep: rep})
}
